"""Builds beacon configuration blocks for HTTP beacons with the reference encoders (no library code)."""

import struct

from .ref import programs as P
from .ref import tlv

SHORT, INT, PTR = tlv.TYPE_SHORT, tlv.TYPE_INT, tlv.TYPE_PTR

DEFAULT_GET = [("BUILD", "metadata"), ("BASE64", True), ("HEADER", b"Cookie")]
DEFAULT_POST = [("BUILD", "id"), ("PARAMETER", b"id"), ("BUILD", "output"), ("PRINT", True)]
DEFAULT_RECOVER = [("print", True)]


def http_settings(
    pubkey_der: bytes,
    get_steps=None,
    post_steps=None,
    recover_steps=None,
    pairs=(("127.0.0.1", "/ca"),),
    submit_uri="/submit.php",
    verb_get="GET",
    verb_post="POST",
    port=80,
    proto=0,
    sleeptime=60000,
    jitter=0,
    useragent="Mozilla/5.0 (compatible; MSIE 9.0; Windows NT 6.1)",
    host_header="",
    crypto_scheme=0,
    watermark=305419896,
    extra=(),
    pad_strings=True,
    stale=b"",
):
    """Returns the settings list [(index, type, value)] of a well-formed HTTP beacon configuration.

    ``stale``: bytes a fixed-size string buffer still holds behind the terminating NUL (what an earlier, longer value left
    there); the value of a NUL-terminated string ends at its first NUL."""
    pad = (lambda n: n) if pad_strings else (lambda n: None)

    def cs(b, n):
        if stale and n and len(b) + 2 <= n:
            return (b + b"\x00" + stale)[: n - 1].ljust(n, b"\x00")
        return P.cstr(b, n)

    domains = ",".join(f"{d},{u}" for d, u in pairs).encode()
    s = [
        (1, SHORT, struct.pack(">H", proto)),
        (2, SHORT, struct.pack(">H", port)),
        (3, INT, struct.pack(">I", sleeptime)),
        (4, INT, struct.pack(">I", 1048576)),
        (5, SHORT, struct.pack(">H", jitter)),
        (7, PTR, pubkey_der + b"\x00" * max(0, 256 - len(pubkey_der))),
        (8, PTR, P.cstr(domains, pad(256))),
        (31, SHORT, struct.pack(">H", crypto_scheme)),
        (26, PTR, cs(verb_get.encode(), pad(16))),
        (27, PTR, cs(verb_post.encode(), pad(16))),
        (28, INT, struct.pack(">I", 0)),
        (37, INT, struct.pack(">I", watermark)),
        (9, PTR, P.cstr(useragent.encode("latin-1"), pad(128))[: 0x7F + 1] if len(useragent) < 0x7F else P.cstr(useragent.encode("latin-1")[:0x7E])),
        (10, PTR, cs(submit_uri.encode(), pad(64))),
        (11, PTR, P.enc_recover(recover_steps if recover_steps is not None else DEFAULT_RECOVER, pad_to=pad(256))),
        (12, PTR, P.enc_transform(get_steps if get_steps is not None else DEFAULT_GET, build0="metadata", pad_to=pad(512))),
        (13, PTR, P.enc_transform(post_steps if post_steps is not None else DEFAULT_POST, build0="id", pad_to=pad(512))),
        (54, PTR, cs(host_header.encode(), pad(128))),
    ]
    s += list(extra)
    return s


def http_block(*a, pad_to=4096, **kw) -> bytes:
    return tlv.encode(http_settings(*a, **kw), pad_to=pad_to)


def block_from_cfg(cfg, pubkey_der, extra=(), pad_to=4096) -> bytes:
    """Configuration block for a dict produced by strategies.http_beacon_config()."""
    return http_block(
        pubkey_der,
        get_steps=[tuple(s) for s in cfg["get_steps"]],
        post_steps=[tuple(s) for s in cfg["post_steps"]],
        recover_steps=[tuple(s) for s in cfg["recover_steps"]],
        pairs=[tuple(p) for p in cfg["pairs"]],
        submit_uri=cfg["submit_uri"],
        verb_get=cfg["verb_get"],
        verb_post=cfg["verb_post"],
        port=cfg["port"],
        proto=cfg["proto"],
        sleeptime=cfg["sleeptime"],
        jitter=cfg["jitter"],
        useragent=cfg["useragent"],
        host_header=cfg.get("host_header", ""),
        stale=cfg.get("stale", b""),
        extra=extra,
        pad_to=pad_to,
    )


def normalize_cfg(cfg):
    """Tuples after JSON replay."""
    c = dict(cfg)
    for k in ("get_steps", "post_steps", "recover_steps", "pairs"):
        c[k] = [tuple(x) for x in cfg[k]]
    return c
