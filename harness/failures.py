"""Documented failures, provoked on purpose.

Cases 4, 8, 16, 32 and every 64th case of every sub-check shard (and every replay) are preceded by ``provoke()``: a handful of calls into the
library that fail the documented way (ValueError for payloads without a configuration, malformed HTTP, bad literals,
tampered packets, truncated profiles ...).  On a sound library a failed call leaves nothing behind; a change that keeps
partial results, half-updated caches or shared writers across a failure makes the *next* - valid - case fail.
All outcomes of the provoked calls themselves are ignored here (they are judged by C08 and the negative sub-checks)."""

import io

_state = {"n": 0}


def _quiet(fn):
    try:
        fn()
    except BaseException as e:  # noqa: BLE001 - includes lark errors; KeyboardInterrupt is not expected here
        if isinstance(e, (KeyboardInterrupt, SystemExit)):
            raise


def provoke():
    _state["n"] += 1

    def beacon():
        from dissect.cobaltstrike.beacon import BeaconConfig

        if _state["n"] % 2:
            _quiet(lambda: BeaconConfig.from_bytes(b"\x00\x01\x00\x01\x00\x02 no beacon here " * 3))
        else:
            _quiet(lambda: BeaconConfig.from_file(io.BytesIO(b"")))
        _quiet(lambda: BeaconConfig(b"\x00\x01\x00\x01\x00").settings)

    def xordecode():
        from dissect.cobaltstrike.xordecode import XorEncodedFile

        if _state["n"] % 4 == 2:  # validating the marker candidate scans 1024 offsets (3 ms)
            _quiet(lambda: XorEncodedFile.from_file(io.BytesIO(b"\x90\x90\xff\xff\xff" + b"junk" * 9), maxrange=16))
        else:
            _quiet(lambda: XorEncodedFile.from_file(io.BytesIO(b"junkjunkjunk")))

    def c2():
        from dissect.cobaltstrike import c2

        _quiet(lambda: c2.parse_raw_http(b"BROKEN\r\nHost: x\r\n\r\nbody"))
        _quiet(lambda: c2.parse_raw_http(b"HTTP/1.1 abc OK\r\n\r\n"))
        _quiet(lambda: c2.decrypt_packet(c2.EncryptedPacket(b"A" * 16, b"B" * 16), b"K" * 16, b"H" * 16))
        _quiet(lambda: list(c2.ClientC2Data(output=b"\x00\x00\x10\x00short").iter_encrypted_packets()))
        t = c2.HttpDataTransform([("BUILD", "metadata"), ("NETBIOS", True), ("HEADER", b"Cookie")])
        _quiet(lambda: t.recover(c2.HttpRequest(method=b"GET", uri=b"/", params={}, headers={}, body=b"")))
        _quiet(lambda: t.recover(c2.HttpRequest(method=b"GET", uri=b"/", params={}, headers={b"Cookie": b"\xff\xfe!"}, body=b"")))

    def metadata():
        from dissect.cobaltstrike import c2

        from . import keys

        _quiet(lambda: c2.decrypt_metadata(b"\x01" * 128, keys.rsa("rsa_1024_a")))

    def profile():
        from lark import Token

        from dissect.cobaltstrike import c2profile

        # failing inputs have a valid beginning: what was decoded / parsed before the error must not leak into the next call
        _quiet(lambda: c2profile.string_token_to_bytes(Token("STRING", '"LEAK\\x4"')))
        _quiet(lambda: c2profile.string_token_to_bytes(Token("STRING", '"\\x41\\n\\u00"')))
        if _state["n"] % 64 == 1:  # a parse error costs tens of milliseconds
            _quiet(lambda: c2profile.C2Profile.from_text('set sleeptime "1";\nhttp-get { client { metadata {'))

    def misc():
        from dissect.cobaltstrike import pe, utils

        _quiet(lambda: pe.find_compile_stamps(io.BytesIO(b"MZ\x00\x00"), maxrange=8))
        _quiet(lambda: utils.pack(-1, size=1))
        _quiet(lambda: utils.netbios_decode(b"\xff\x00\x01"))
        _quiet(lambda: utils.random_stager_uri(length=2))

    for part in (beacon, xordecode, c2, metadata, profile, misc):
        _quiet(part)
