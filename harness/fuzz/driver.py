"""atheris driver, run as a subprocess by fuzz sub-checks (thorough tier):

    python -m harness.fuzz.driver <target module> <function> <corpus dir> <runs> <seed> <out json> [max_len]

The target function takes bytes and raises harness.runner.Violation when its oracle fails (the semantic oracle lives
inside the target).  On a violation the input is written to <out json> and the process exits with status 3.
Counters kept by the target (dict COUNTERS) are dumped to <out json>.stats every 500 executions and at the end.
"""

import importlib
import json
import os
import sys


def main():
    modname, fname, corpus, runs, seed, out = sys.argv[1:7]
    max_len = sys.argv[7] if len(sys.argv) > 7 else "4096"
    root = os.path.dirname(os.path.dirname(os.path.dirname(os.path.abspath(__file__))))
    sys.path.insert(0, os.environ.get("VERIF_REPO", "/repo"))
    sys.path.append(os.path.join(root, ".deps"))
    import atheris

    with atheris.instrument_imports(include=["dissect.cobaltstrike"]):
        import dissect.cobaltstrike.artifact  # noqa: F401
        import dissect.cobaltstrike.beacon  # noqa: F401
        import dissect.cobaltstrike.c2  # noqa: F401
        import dissect.cobaltstrike.guardrails  # noqa: F401
        import dissect.cobaltstrike.pe  # noqa: F401
        import dissect.cobaltstrike.utils  # noqa: F401
        import dissect.cobaltstrike.xordecode  # noqa: F401
    from harness.runner import Discard, Violation

    mod = importlib.import_module(modname)
    fn = getattr(mod, fname)
    counters = getattr(mod, "COUNTERS", {})
    state = {"n": 0}

    def dump():
        with open(out + ".stats", "w") as f:
            json.dump({"execs": state["n"], "counters": dict(counters)}, f)

    def test_one(data):
        state["n"] += 1
        try:
            fn(data)
        except Discard:
            pass
        except Violation as v:
            with open(out, "w") as f:
                json.dump({"key": v.key, "message": v.message, "data": bytes(data).hex()}, f)
            dump()
            os._exit(3)
        if state["n"] % 500 == 0 or state["n"] >= int(runs) - 1:
            dump()

    argv = [sys.argv[0], corpus, f"-runs={runs}", f"-seed={seed}", f"-max_len={max_len}", "-timeout=60", "-rss_limit_mb=4096", "-print_final_stats=0", f"-artifact_prefix={corpus}/crash-"]
    atheris.Setup(argv, test_one)
    try:
        atheris.Fuzz()
    finally:
        dump()


if __name__ == "__main__":
    main()
