"""Runs one atheris campaign as a subprocess and folds its result into the runner's stats (used by Sub.custom)."""

import json
import os
import shutil
import subprocess
import sys
import tempfile

from ..runner import ROOT, Violation


def campaign(modname, fname, seeds, runs, seed, stats, max_len=4096, timeout=3000):
    """seeds: list of bytes for the starting corpus (may be empty).  Raises Violation with case {'data': bytes}."""
    deps = os.path.join(ROOT, ".deps")
    if not os.path.isdir(os.path.join(deps, "atheris")):
        subprocess.run([sys.executable, "-m", "pip", "install", "-q", "--no-index", "--find-links", "/opt/veriftools/wheels", "--target", deps, "atheris"], capture_output=True)
    if not os.path.isdir(os.path.join(deps, "atheris")):
        stats.count("atheris_unavailable")
        return
    work = tempfile.mkdtemp(prefix="fuzz_", dir="/dev/shm")
    try:
        corpus = os.path.join(work, "corpus")
        os.makedirs(corpus)
        for i, s in enumerate(seeds):
            with open(os.path.join(corpus, f"seed{i}"), "wb") as f:
                f.write(s)
        out = os.path.join(work, "result.json")
        env = dict(os.environ, PYTHONPATH=ROOT, PYTHONHASHSEED="0")
        p = subprocess.run(
            [sys.executable, "-m", "harness.fuzz.driver", modname, fname, corpus, str(runs), str(seed % (2**31 - 1) + 1), out, str(max_len)],
            cwd=ROOT, env=env, capture_output=True, text=True, timeout=timeout,
        )
        st = {}
        if os.path.exists(out + ".stats"):
            st = json.load(open(out + ".stats"))
        stats.evaluations += int(st.get("execs", 0))
        for k, v in st.get("counters", {}).items():
            stats.count(k, v)
        stats.count("atheris_execs", int(st.get("execs", 0)))
        stats.count("atheris_corpus_files", len(os.listdir(corpus)))
        if os.path.exists(out):
            r = json.load(open(out))
            raise Violation(r["key"], "[atheris] " + r["message"], {"data": bytes.fromhex(r["data"])})
        if p.returncode not in (0,):
            # libFuzzer-level crash / timeout: keep the artifact as the failing input
            arts = [f for f in os.listdir(corpus) if f.startswith(("crash-", "timeout-", "oom-"))]
            if arts:
                data = open(os.path.join(corpus, arts[0]), "rb").read()
                kind = arts[0].split("-")[0]
                raise Violation(f"fuzz:{kind}", f"[atheris] libFuzzer reported {kind}: {p.stderr[-400:]}", {"data": data})
            from ..runner import HarnessError

            raise HarnessError(f"atheris driver failed (rc={p.returncode}): {p.stderr[-800:]}")
    finally:
        shutil.rmtree(work, ignore_errors=True)
