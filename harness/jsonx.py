"""JSON encoding of generated cases (bytes, tuples) so that every case can become a replay file."""

import hashlib
import json


def enc(obj):
    if isinstance(obj, (bytes, bytearray)):
        return {"$b": bytes(obj).hex()}
    if isinstance(obj, tuple):
        return {"$t": [enc(x) for x in obj]}
    if isinstance(obj, list):
        return [enc(x) for x in obj]
    if isinstance(obj, dict):
        if all(isinstance(k, str) for k in obj):
            return {k: enc(v) for k, v in obj.items()}
        # keys that are not text (bytes parameter / header names): kept as pairs so that a replay rebuilds the same mapping
        return {"$d": [[enc(k), enc(v)] for k, v in obj.items()]}
    if isinstance(obj, (str, int, float, bool)) or obj is None:
        return obj
    if isinstance(obj, (set, frozenset)):
        return {"$s": sorted(enc(x) for x in obj)}
    return {"$r": repr(obj)}


def dec(obj):
    if isinstance(obj, dict):
        if len(obj) == 1:
            if "$b" in obj:
                return bytes.fromhex(obj["$b"])
            if "$t" in obj:
                return tuple(dec(x) for x in obj["$t"])
            if "$s" in obj:
                return set(dec(x) for x in obj["$s"])
            if "$d" in obj:
                return {dec(k): dec(v) for k, v in obj["$d"]}
        return {k: dec(v) for k, v in obj.items()}
    if isinstance(obj, list):
        return [dec(x) for x in obj]
    return obj


def dumps(obj, **kw):
    return json.dumps(enc(obj), sort_keys=True, **kw)


def loads(s):
    return dec(json.loads(s))


def digest(obj) -> bytes:
    return hashlib.sha1(dumps(obj).encode()).digest()[:10]


def brief(obj, maxbytes=48, maxlist=12, depth=0):
    """Human-sized rendering of a case for evidence samples."""
    if isinstance(obj, (bytes, bytearray)):
        b = bytes(obj)
        if len(b) > maxbytes:
            return "hex:" + b[:maxbytes].hex() + "...(%d bytes)" % len(b)
        return "hex:" + b.hex()
    if isinstance(obj, (list, tuple)):
        out = [brief(x, maxbytes, maxlist, depth + 1) for x in obj[:maxlist]]
        if len(obj) > maxlist:
            out.append("...(%d items)" % len(obj))
        return out
    if isinstance(obj, dict):
        return {str(k): brief(v, maxbytes, maxlist, depth + 1) for k, v in list(obj.items())[:40]}
    if isinstance(obj, str) and len(obj) > 200:
        return obj[:200] + "...(%d chars)" % len(obj)
    if isinstance(obj, (str, int, float, bool)) or obj is None:
        return obj
    return repr(obj)[:200]
