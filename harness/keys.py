"""Fixed RSA key fixtures (determinism; generation itself would be fast enough)."""

import functools
import os

ROOT = os.path.dirname(os.path.dirname(os.path.abspath(__file__)))


@functools.lru_cache(maxsize=None)
def rsa(name: str):
    from Crypto.PublicKey import RSA

    with open(os.path.join(ROOT, "fixtures", name + ".pem"), "rb") as f:
        return RSA.import_key(f.read())


def der_public(name: str) -> bytes:
    return rsa(name).public_key().export_key("DER")
