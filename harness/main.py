"""CLI:  ./check <ID> [--tier quick|thorough] [--seed N] [--replay FILE] [--only sub,sub] [--procs N]"""

import argparse
import os
import sys


def main(argv=None):
    ap = argparse.ArgumentParser(prog="check")
    ap.add_argument("property")
    ap.add_argument("--tier", choices=["quick", "thorough"], default=None)
    ap.add_argument("--seed", type=int, default=None)
    ap.add_argument("--replay", default=None)
    ap.add_argument("--only", default=None)
    ap.add_argument("--procs", type=int, default=None)
    args = ap.parse_args(argv)

    tier = args.tier or os.environ.get("VERIF_TIER") or "quick"
    if tier not in ("quick", "thorough"):
        tier = "quick"
    try:
        seed = args.seed if args.seed is not None else int(os.environ.get("VERIF_SEED", "1"))
    except ValueError:
        seed = 1

    # the library logs through the logging module (e.g. an error line per unknown opcode): keep the check's output to its
    # own report lines
    import logging

    logging.disable(logging.CRITICAL)

    # the code under test comes from $VERIF_REPO's working tree (default /repo)
    repo = os.environ.get("VERIF_REPO", "/repo")
    sys.path.insert(0, repo)
    deps = os.path.join(os.path.dirname(os.path.dirname(os.path.abspath(__file__))), ".deps")
    if os.path.isdir(deps):
        sys.path.append(deps)
    try:
        import hypothesis  # noqa: F401
    except ImportError:
        import subprocess

        subprocess.run(
            [sys.executable, "-m", "pip", "install", "-q", "--no-index", "--find-links", "/opt/veriftools/wheels", "hypothesis"],
            check=False,
        )
    try:
        import dissect.cobaltstrike

        got = os.path.realpath(list(dissect.cobaltstrike.__path__)[0])
        want = os.path.realpath(os.path.join(repo, "dissect", "cobaltstrike"))
        if got != want:
            print(f"HARNESS-ERROR dissect.cobaltstrike imported from {got}, expected {want}")
            return 2
    except Exception as e:  # import failure of the code under test is a harness error, not a violation
        print(f"HARNESS-ERROR cannot import dissect.cobaltstrike from {repo}: {e!r}")
        return 2

    from . import runner

    prop = args.property.upper()
    try:
        if args.replay:
            return runner.run_replay(prop, args.replay)
        only = set(args.only.split(",")) if args.only else None
        return runner.run_property(prop, tier, seed, only=only, nproc=args.procs or runner.NPROC)
    except runner.HarnessError as e:
        print(f"HARNESS-ERROR {e}")
        return 2
    except Exception:
        import traceback

        print("HARNESS-ERROR\n" + traceback.format_exc())
        return 2


if __name__ == "__main__":
    sys.exit(main())
