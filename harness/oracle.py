"""Small helpers used by the property modules to call library code and state oracles."""

import traceback

from .runner import Violation


def _frame_of(exc) -> str:
    """Innermost traceback frame that lies inside dissect/cobaltstrike (for bucketing by root cause)."""
    tb = traceback.extract_tb(exc.__traceback__)
    inner = None
    for fr in tb:
        if "dissect/cobaltstrike" in fr.filename.replace("\\", "/"):
            inner = fr
    if inner is None:
        return "outside"
    fname = inner.filename.replace("\\", "/").rsplit("/", 1)[-1]
    return f"{fname}:{inner.name}"


def exc_key(exc) -> str:
    return f"exc:{type(exc).__name__}@{_frame_of(exc)}"


class Raised:
    """Outcome wrapper for an expected exception."""

    def __init__(self, exc):
        self.exc = exc

    def __repr__(self):
        return f"Raised({self.exc!r})"


def lib(fn, *args, allow=(), what=None, **kw):
    """Call library code.  Exceptions in ``allow`` are returned as Raised(exc); any other exception escaping the
    library is a violation (the properties promise documented results or documented errors only)."""
    try:
        return fn(*args, **kw)
    except Violation:
        raise
    except allow as e:  # type: ignore[misc]
        return Raised(e)
    except RecursionError as e:
        raise Violation(exc_key(e), f"{what or getattr(fn, '__name__', fn)} raised RecursionError")
    except Exception as e:
        name = what or getattr(fn, "__qualname__", getattr(fn, "__name__", repr(fn)))
        tb = "".join(traceback.format_exception(type(e), e, e.__traceback__)[-6:])
        raise Violation(exc_key(e), f"{name} raised {type(e).__name__}: {e}\n{tb}")


def check(cond, key, msg):
    if not cond:
        raise Violation(key, msg() if callable(msg) else msg)


def eq(got, want, key, what):
    if got != want:
        g, w = repr(got), repr(want)
        if len(g) > 400:
            g = g[:400] + "..."
        if len(w) > 400:
            w = w[:400] + "..."
        raise Violation(key, f"{what}: got {g}, expected {w}")
