"""Reference team-server peer and reference beacon for end-to-end sessions (C07, C14).

* A tiny recording HTTP/1.1 server on 127.0.0.1 (one thread per process): records the raw request bytes exactly as
  they arrive, asks the installed handler for the raw response bytes, records and sends them, closes the connection.
* ``TeamServer``: decodes requests with the reference codec (harness/ref/transform.py, crypto.py, httpwire) and
  encodes task responses.  Nothing from dissect.cobaltstrike is used here.
* ``RefBeacon``: builds raw callback / check-in requests the way a real beacon would (reference encoders).
"""

import socket
import struct
import threading

from Crypto.Cipher import PKCS1_v1_5

from .ref import crypto as RC
from .ref import httpwire as W
from .ref import transform as T


# ----------------------------------------------------------------------------------------------- recording server
class RecordingServer:
    def __init__(self):
        self.sock = socket.socket(socket.AF_INET, socket.SOCK_STREAM)
        self.sock.setsockopt(socket.SOL_SOCKET, socket.SO_REUSEADDR, 1)
        self.sock.bind(("127.0.0.1", 0))
        self.sock.listen(16)
        self.port = self.sock.getsockname()[1]
        self.handler = None
        self.errors = []
        self.thread = threading.Thread(target=self._serve, daemon=True)
        self.thread.start()

    def _read_request(self, conn):
        conn.settimeout(5.0)
        buf = b""
        while b"\r\n\r\n" not in buf:
            chunk = conn.recv(65536)
            if not chunk:
                return buf
            buf += chunk
        head, _, body = buf.partition(b"\r\n\r\n")
        clen = 0
        for line in head.split(b"\r\n")[1:]:
            k, _, v = line.partition(b":")
            if k.strip().lower() == b"content-length":
                clen = int(v.strip() or 0)
        while len(body) < clen:
            chunk = conn.recv(65536)
            if not chunk:
                break
            body += chunk
        return head + b"\r\n\r\n" + body

    def _serve(self):
        while True:
            try:
                conn, _ = self.sock.accept()
            except OSError:
                return
            try:
                raw = self._read_request(conn)
                handler = self.handler
                resp = handler(raw) if handler else b"HTTP/1.1 500 NoHandler\r\nContent-Length: 0\r\nConnection: close\r\n\r\n"
                conn.sendall(resp)
            except Exception as e:  # recorded, surfaced by the harness as a harness error
                self.errors.append(repr(e))
                try:
                    conn.sendall(b"HTTP/1.1 500 HarnessError\r\nContent-Length: 0\r\nConnection: close\r\n\r\n")
                except OSError:
                    pass
            finally:
                try:
                    conn.shutdown(socket.SHUT_RDWR)
                except OSError:
                    pass
                conn.close()


_SERVER = None
_SERVER_PID = None


def server() -> RecordingServer:
    """One server per process (a server inherited through fork() has no thread here and shares its socket)."""
    import os

    global _SERVER, _SERVER_PID
    if _SERVER is None or _SERVER_PID != os.getpid():
        _SERVER = RecordingServer()
        _SERVER_PID = os.getpid()
    return _SERVER


def send_raw(port: int, raw: bytes) -> bytes:
    """Reference beacon transport: write the raw request, read the full response."""
    with socket.create_connection(("127.0.0.1", port), timeout=5.0) as s:
        s.sendall(raw)
        out = b""
        while True:
            chunk = s.recv(65536)
            if not chunk:
                break
            out += chunk
    return out


# ----------------------------------------------------------------------------------------------- strict request splitter
def pct_decode(b: bytes, plus_space=True) -> bytes:
    out = bytearray()
    i = 0
    while i < len(b):
        c = b[i]
        if c == 0x25 and i + 2 < len(b) + 0 and len(b) >= i + 3:
            try:
                out.append(int(b[i + 1 : i + 3], 16))
                i += 3
                continue
            except ValueError:
                pass
        if c == 0x2B and plus_space:
            out.append(0x20)
        else:
            out.append(c)
        i += 1
    return bytes(out)


def split_request(raw: bytes):
    head, _, body = raw.partition(b"\r\n\r\n")
    lines = head.split(b"\r\n")
    method, target, version = lines[0].split(b" ")
    path, _, query = target.partition(b"?")
    params = {}
    if query:
        for pair in query.split(b"&"):
            k, _, v = pair.partition(b"=")
            params[pct_decode(k)] = pct_decode(v)
    headers = {}
    for line in lines[1:]:
        k, _, v = line.partition(b": ")
        headers[k] = v
    return method, path, params, headers, body


def ci_headers(headers):
    return {k.lower(): v for k, v in headers.items()}


class _CIMsg(dict):
    pass


def message_for_decode(path, params, headers, body, steps):
    """Reference message dict whose header lookup is case-insensitive for the names the program uses."""
    low = ci_headers(headers)
    hdrs = dict(headers)
    for name, arg in steps:
        if name == "HEADER" and arg not in hdrs and arg.lower() in low:
            hdrs[arg] = low[arg.lower()]
    return {"uri": path, "params": params, "headers": hdrs, "body": body}


META_FMT = ">II16sHHIIHBBBHIIII"
META_FIELDS = ["magic", "size", "aes_rand", "ansi_cp", "oem_cp", "bid", "pid", "port", "flag", "ver_major", "ver_minor", "ver_build", "ptr_x64", "ptr_gmh", "ptr_gpa", "ip"]


def parse_metadata(pt: bytes):
    vals = struct.unpack(META_FMT, pt[:59])
    d = dict(zip(META_FIELDS, vals))
    d["info"] = pt[59 : 59 + d["size"] - 51]
    return d


def build_metadata(fields: dict, info: bytes) -> bytes:
    vals = [0xBEEF, 51 + len(info)] + [fields[n] for n in META_FIELDS[2:]]
    return struct.pack(META_FMT, *vals) + info


def enc_task(epoch, command, data, aes, hk, iv=b"abcdefghijklmnop") -> bytes:
    pt = struct.pack(">IIII", epoch, 8 + len(data), command, len(data)) + data
    ct = RC.cbc_encrypt(RC.pad_a(pt), aes, iv)
    return ct + RC.sign(ct, hk)


def enc_callback(counter, callback, data, aes, hk, iv=b"abcdefghijklmnop") -> bytes:
    pt = struct.pack(">III", counter, len(data), callback) + data
    ct = RC.cbc_encrypt(RC.pad_a(pt), aes, iv)
    frame = ct + RC.sign(ct, hk)
    return struct.pack(">I", len(frame)) + frame


def dec_callbacks(output: bytes, aes, hk, iv=b"abcdefghijklmnop"):
    out = []
    pos = 0
    while pos < len(output):
        (n,) = struct.unpack(">I", output[pos : pos + 4])
        frame = output[pos + 4 : pos + 4 + n]
        pos += 4 + n
        ct, sig = frame[:-16], frame[-16:]
        assert RC.sign(ct, hk) == sig, "reference peer: bad callback signature"
        pt = RC.cbc_decrypt(ct, aes, iv)
        counter, size, cb = struct.unpack(">III", pt[:12])
        out.append(dict(counter=counter, size=size, callback=cb, data=pt[12 : 12 + size]))
    return out


# ----------------------------------------------------------------------------------------------- reference team server
class TeamServer:
    """Reference decoder/encoder for one HTTP beacon configuration."""

    def __init__(self, cfg, priv):
        self.cfg = cfg  # dict: get_steps, post_steps, recover_steps, get_uris, submit_uri, verb_get, verb_post
        self.priv = priv
        self.queue = []  # tasks to hand out: (epoch, command, data)
        self.log = []  # [(kind, raw_request, raw_response, decoded)]
        self.keys = None
        self.iv = b"abcdefghijklmnop"  # the IV both ends of the session are configured with
        self.masks = []

    def route(self, method, path):
        c = self.cfg
        if method == c["verb_get"].encode():
            for u in sorted(c["get_uris"], key=len, reverse=True):
                if path.startswith(u.encode()):
                    return "get", u.encode()
        if method == c["verb_post"].encode() and path.startswith(c["submit_uri"].encode()):
            return "post", c["submit_uri"].encode()
        return None, b""

    def handle(self, raw: bytes) -> bytes:
        method, path, params, headers, body = split_request(raw)
        kind, base = self.route(method, path)
        decoded = None
        resp_body = b""
        if kind == "get":
            msg = message_for_decode(path, params, headers, body, self.cfg["get_steps"])
            blob = T.client_decode(self.cfg["get_steps"], msg, base_uri=base)["metadata"]
            pt = PKCS1_v1_5.new(self.priv).decrypt(blob, None)
            md = parse_metadata(pt)
            assert md["magic"] == 0xBEEF, "reference peer: bad metadata magic"
            self.keys = RC.derive(md["aes_rand"])
            decoded = {"metadata": md}
            task = self.queue.pop(0) if self.queue else None
            if task and len(task) > 3:
                # the caller asked for a task whose encrypted form ends in a byte that text-oriented code treats specially
                # (CR, LF, blank, tab, NUL): advance the epoch until the signature's last byte is one of them
                epoch, cmd, data, edge = task
                for e in range(epoch, epoch + 4096):
                    if enc_task(e, cmd, data, *self.keys, self.iv)[-1] in edge:
                        epoch = e
                        break
                task = (epoch, cmd, data)
            self.last_task = task
            payload = enc_task(*task, *self.keys, self.iv) if task else b""
            decoded["task"] = task
            resp_body = T.server_encode(self.cfg["recover_steps"], payload, masks=list(self.masks))
        elif kind == "post":
            msg = message_for_decode(path, params, headers, body, self.cfg["post_steps"])
            d = T.client_decode(self.cfg["post_steps"], msg, base_uri=base)
            decoded = {"id": d["id"], "callbacks": dec_callbacks(d["output"], *self.keys, self.iv)}
        status = b"HTTP/1.1 200 OK" if kind else b"HTTP/1.1 404 NotFound"
        resp = status + b"\r\nContent-Type: application/octet-stream\r\nContent-Length: " + str(len(resp_body)).encode() + b"\r\nConnection: close\r\n\r\n" + resp_body
        self.log.append((kind, raw, resp, decoded))
        return resp


# ----------------------------------------------------------------------------------------------- reference beacon
class RefBeacon:
    def __init__(self, cfg, host="127.0.0.1"):
        self.cfg = cfg
        self.host = host

    def _raw(self, method, msg):
        headers = [(b"Host", self.host.encode())] + [(k, v) for k, v in msg["headers"].items() if k.lower() != b"host"]
        for k, v in msg["headers"].items():
            if k.lower() == b"host":
                headers[0] = (k, v)
        headers.append((b"Content-Length", str(len(msg["body"])).encode()))
        headers.append((b"Connection", b"close"))
        return W.request(method.encode(), msg["uri"], list(msg["params"].items()), headers, msg["body"])

    def callback_request(self, beacon_id: int, frames: bytes, masks=None, uri=None) -> bytes:
        c = self.cfg
        msg = T.client_encode(c["post_steps"], {"id": str(beacon_id).encode(), "output": frames}, initial={"uri": (uri or c["submit_uri"]).encode()}, masks=masks, pad_b64url=True)
        return self._raw(c["verb_post"], msg)

    def checkin_request(self, blob: bytes, masks=None, uri=None) -> bytes:
        c = self.cfg
        msg = T.client_encode(c["get_steps"], {"metadata": blob}, initial={"uri": (uri or c["get_uris"][0]).encode()}, masks=masks, pad_b64url=True)
        return self._raw(c["verb_get"], msg)
