"""Hypothesis strategies producing profile ASTs of the reference language (harness/ref/profile_lang.py)."""

from hypothesis import strategies as st

from .ref import profile_lang as PL

# (raw control characters that some text functions treat as line boundaries are ordinary literal content)
_PLAIN = [chr(c) for c in list(range(0x20, 0x7F)) if chr(c) not in '"\\'] + ["é", "ÿ", "\n", "\t", "\x0b", "\x0c", "\x1c", "\x1e", "\x1f", "\n", "\t"]
_HH = [0x00, 0x01, 0x0A, 0x22, 0x27, 0x41, 0x5C, 0x7F, 0x80, 0xFF]


def _mixcase(hh, mode):
    return [hh, hh.upper(), hh[0].upper() + hh[1], hh[0] + hh[1].upper()][mode]


def literal(max_parts=8):
    """A valid string literal (text incl. quotes) built from the escape grammar."""
    part = st.one_of(
        st.sampled_from(_PLAIN),
        st.sampled_from(_PLAIN),
        st.sampled_from(_HH).map(lambda h: "\\x%02x" % h),
        st.sampled_from(_HH).map(lambda h: "\\u00%02x" % h),
        # any byte value, hex digits in either case (\xFC, \xaB, \u00E9)
        st.tuples(st.integers(0, 255), st.integers(0, 3)).map(lambda t: "\\x" + _mixcase("%02x" % t[0], t[1])),
        st.tuples(st.integers(0, 255), st.integers(0, 3)).map(lambda t: "\\u00" + _mixcase("%02x" % t[0], t[1])),
        st.sampled_from(["\\n", "\\r", "\\t", "\\\\", '\\"', "\\'"]),
        st.sampled_from(["#", ";", "{", "}", "set", " ", "//", "/*"]),
        # fragments that look like the pretty-printer's own layout (as_text post-processes spacing around { } ;)
        st.sampled_from([" ;\n", ";\n", " {\n", "}\n", "\n    ", " ; ", " ;", "{ }", "\n\n", " \n", "\t;"]),
    )
    simple = st.text(alphabet="abcdefghijklmnopqrstuvwxyzABCDEFGHIJKLMNOPQRSTUVWXYZ0123456789/._-: ", max_size=16)
    return st.one_of(simple, st.lists(part, max_size=max_parts).map("".join)).map(lambda s: '"' + s + '"')


def _stmt(spec, lit, depth):
    k = spec[0]
    if k == "set":
        return lit.map(lambda v: ["set", spec[1], v])
    if k == "kw0":
        return st.just(["kw0", spec[1]])
    if k == "kw1":
        return lit.map(lambda v: ["kw1", spec[1], v])
    if k == "kw2":
        return st.tuples(lit, lit).map(lambda t: ["kw2", spec[1], t[0], t[1]])
    if k == "block":
        return block_children(spec[2], lit, depth + 1).map(lambda ch: ["block", spec[1], None, ch])
    if k == "transform":
        return st.lists(data_transform(lit), max_size=3).map(lambda dts: ["transform", spec[1], dts])
    raise ValueError(spec)


def data_transform(lit):
    def mk(kn):
        k, n = kn
        return st.just([k, n]) if k == "kw0" else lit.map(lambda v: [k, n, v])

    step = st.sampled_from(PL.TRANSFORM_STEPS).flatmap(mk)
    term = st.sampled_from(PL.TERMINATIONS).flatmap(mk)
    return st.tuples(st.lists(step, max_size=4), term).map(lambda t: t[0] + [t[1]])


def block_children(specname, lit, depth=0, max_children=8):
    specs = PL.BLOCKS[specname]
    if depth >= 3:
        specs = [s for s in specs if s[0] not in ("block",)] or specs
    child = st.sampled_from(specs).flatmap(lambda s: _stmt(s, lit, depth))
    return st.lists(child, max_size=max_children)


def top_node(lit, variants=True):
    opt = st.tuples(st.sampled_from(PL.GLOBAL_OPTIONS), lit).map(lambda t: ["opt", t[0], t[1]])

    def blk(name):
        var = st.one_of(st.none(), st.none(), lit, st.just('"default"'), st.sampled_from(['"Default"', '"DEFAULT"', '"default "', '" default"', '"defaults"', '"\\x64efault"', '""', '"variant"', '"Variant"'])) if (variants and name in PL.VARIANT_BLOCKS) else st.none()
        return st.tuples(var, block_children(name, lit)).map(lambda t: ["block", name, t[0], t[1]])

    return st.one_of(opt, st.sampled_from(PL.TOP_BLOCKS).flatmap(blk), st.sampled_from(["http-get", "http-post", "stage", "process-inject", "http-stager"]).flatmap(blk))


def profile_ast(variants=True, max_nodes=10, lit=None):
    return st.lists(top_node(lit if lit is not None else literal(), variants), max_size=max_nodes)


def _all_keywords():
    kws = {"set", "dns_resolver"}
    for specs in PL.BLOCKS.values():
        kws.update(s[1] for s in specs)
    kws.update(n for _k, n in PL.TRANSFORM_STEPS + PL.TERMINATIONS)
    return sorted(kws)


# commented-out statements: everything from '#' to the end of the line is a comment, however much it looks like profile
# text - including the pseudo statement the library itself writes into generated profiles ('# dns_resolver "...";')
_commented_out = st.tuples(
    st.sampled_from(["#", "# ", " #", "#\t"]),
    st.one_of(st.just("dns_resolver"), st.sampled_from(_all_keywords())),
    st.sampled_from(['"8.8.8.8"', '"x"', '""', '"a" "b"', ""]),
    st.sampled_from([";", " ;", ""]),
    st.sampled_from(["", "", ' set dns_ttl "5";', " configured on the listener", " }", " {", ' header "a" "b"; print;', " # again", '"']),
).map(lambda t: " " + t[0] + t[1] + " " + t[2] + t[3] + t[4] + "\n")

whitespace = st.lists(
    st.one_of(
        st.sampled_from([" ", " ", "\n", "\t", "  ", "\n\n", " \n    "]),
        st.text(alphabet="abc {};\"'#set", max_size=12).map(lambda s: " # " + s + "\n"),
        _commented_out,
    ),
    min_size=1,
    max_size=12,
)


def cycle(items):
    while True:
        for x in items:
            yield x


def count_statements(nodes):
    n = 0
    for x in nodes:
        if x[0] == "block":
            n += 1 + count_statements(x[3])
        elif x[0] == "transform":
            n += 1 + sum(len(dt) for dt in x[2])
        else:
            n += 1
    return n


def has_nested_block(nodes):
    return any(x[0] == "block" and any(c[0] in ("block", "transform") for c in x[3]) for x in nodes)


def map_literals(nodes, f):
    """The same AST with every string literal (text incl. quotes) replaced by f(literal)."""
    out = []
    for n in nodes:
        k = n[0]
        if k in ("opt", "set"):
            out.append([k, n[1], f(n[2])])
        elif k == "kw0":
            out.append(list(n))
        elif k == "kw1":
            out.append([k, n[1], f(n[2])])
        elif k == "kw2":
            out.append([k, n[1], f(n[2]), f(n[3])])
        elif k == "block":
            out.append([k, n[1], f(n[2]) if n[2] is not None else None, map_literals(n[3], f)])
        elif k == "transform":
            out.append([k, n[1], [map_literals(dt, f) for dt in n[2]]])
        else:
            raise ValueError(n)
    return out


def respace_literal(lit):
    """A different literal that is equal once runs of whitespace are collapsed (inside the quotes)."""
    inner = lit[1:-1]
    return '"' + inner.replace("  ", "\t").replace(" ", "  ").replace("\n", " \n") + '"'
