"""C01 - beacon configuration extraction is exact and complete."""

import io
import os
import random
import struct
import tempfile

from hypothesis import strategies as st

from .. import strategies as S
from ..oracle import Raised, check, eq, lib
from ..ref import detect, pebuild, tlv, xorenc
from ..runner import Discard, Sub
from ..seams import buffer_size

PROPERTY = "C01"
LEVEL = "exploration"
RULE = (
    "Generated payloads: 0-3 configuration blocks (PROTOCOL setting + 0-12 further settings, zero-padded to 4096 or "
    "short at EOF) each under its own key 0x00-0xff, embedded at offsets drawn from {0, 1..64} and {m*B-8..m*B+8} "
    "(B = read-buffer size, 8192 or patched to 1,2,3,5,7,8,16,64,100,4096) in filler (zeros, random, 4-grams, "
    "near-miss truncated headers, the bytes 01 00 01 00 02 00 at offset 0), in a raw file, a PE .data section or a "
    "XorEncoded PE stage (any stub <= 1000, nonce, marker/size field, optional raw-level decoy block in the stub); "
    "key modes default / caller list / all 256; entry points from_bytes, from_file, from_path; plus the seven real sample "
    "beacons (frozen facts), blocks placed beyond 64/128/256 KiB, and exhaustively every pair of two blocks under two "
    "different keys (first block at offset 0 / 3) x entry point x default / explicit key list. Oracle: reference "
    "extraction on the known plaintext view(s): XorEncoded view first, then raw; keys in priority order; first "
    "occurrence in file order; ValueError iff no tried key has a header. Non-trivial: a block is found and "
    "(offset > 0 or container != raw) and it has >= 2 settings. Distinct by content."
)
ASSUMPTIONS = [
    "raw/PE containers on which the reference XorEncoded analysis finds a validating candidate, and XorEncoded "
    "containers with more than one validating candidate, are discarded and counted (detection ambiguity is C09's subject)",
    "in all-keys mode the order among the left-over 253 keys is a heuristic: any left-over key that has a header in "
    "the first view with hits is accepted, with the first occurrence for that key",
    "inputs with more than 8 ff-ff-ff nonce candidates in the first 1027 bytes are discarded (bounded but slow path, see C08)",
]

SHORT, INT, PTR = 1, 2, 3
DEFAULT_KEYS = [0x69, 0x2E, 0x00]
BUFS = [None, None, None, 1, 2, 3, 5, 7, 8, 16, 64, 100, 4096]


def needle(key):
    return tlv.xor1(tlv.HEADER, key)


# ------------------------------------------------------------------------------------------ generator
def _setting():
    known = st.sampled_from([2, 3, 4, 5, 37, 38, 39, 43, 44, 45, 50, 55, 67, 68, 69, 70, 71, 72, 73, 76, 77])
    num = st.tuples(known, st.sampled_from([SHORT, INT])).flatmap(
        lambda t: st.tuples(st.just(t[0]), st.just(t[1]), st.binary(min_size=2 if t[1] == SHORT else 4, max_size=2 if t[1] == SHORT else 4))
    )
    blob = st.tuples(st.sampled_from([7, 8, 9, 10, 14, 15, 26, 27, 29, 30, 33, 34, 49, 54, 59, 200, 6969]), st.just(PTR), S.binary(0, 48)).map(
        lambda t: (t[0], t[1], t[2][:0x7F] if t[0] == 9 else t[2])
    )
    return st.one_of(num, blob)


def _block():
    return st.fixed_dictionaries(
        {
            "proto": st.sampled_from([0, 1, 2, 4, 8, 16, 255]),
            "settings": st.lists(_setting(), max_size=12),
            "key": st.one_of(st.sampled_from([0x69, 0x2E, 0x00]), st.sampled_from([0x69, 0x2E, 0x00, 0xAF, 0xCC, 0xFF, 0x01]), st.integers(0, 255)),
            "pad": st.sampled_from(["zero", "zero", "zero", "none", "nonzero"]),
            "gap": st.one_of(st.integers(0, 64), st.integers(0, 5000)),
        }
    )


def case_strategy():
    keys = st.one_of(
        st.just({"mode": "default", "list": []}),
        st.just({"mode": "default", "list": []}),
        st.fixed_dictionaries({"mode": st.just("list"), "include": st.booleans(), "list": st.lists(st.one_of(st.sampled_from([0x69, 0x2E, 0x00, 0xAF, 0xCC]), st.integers(0, 255)), min_size=1, max_size=4, unique=True)}),
        st.fixed_dictionaries({"mode": st.just("all"), "list": st.lists(st.integers(0, 255), max_size=2, unique=True)}),
    )
    return st.fixed_dictionaries(
        {
            "blocks": st.lists(_block(), min_size=0, max_size=3),
            "filler": st.sampled_from(["zeros", "random", "gram", "nearmiss", "d1", "ones"]),
            "seed": st.integers(0, 2**32 - 1),
            "target": st.one_of(
                st.tuples(st.just(0), st.integers(0, 64)),
                st.just((0, 0)),
                st.tuples(st.integers(1, 3), st.integers(-8, 8)),
                st.tuples(st.integers(0, 2), st.integers(0, 8191)),
            ),
            "container": st.sampled_from(["raw", "raw", "pe", "xorpe", "xorpe"]),
            "arch": st.sampled_from(["x86", "x64"]),
            # (up to the last offset of the 1024-byte search range: a stage located through its size field only)
            "stub": st.one_of(st.binary(max_size=64), st.integers(0, 1000).map(lambda n: b"\x90" * n), st.sampled_from([1001, 1016, 1017, 1020, 1023]).map(lambda n: b"\x90" * n)),
            "nonce": st.binary(min_size=4, max_size=4),
            "marker_mode": st.sampled_from(["both", "marker_only", "size_only"]),
            "prepend": st.one_of(st.just(0), st.integers(0, 900)),
            # a dword inside the prepended sled that looks like an e_lfanew (1..1023) for the sled's first offsets: a false
            # PE candidate in front of the real image, pointing somewhere into - or past the end of - a small stage
            "prepend_dword": st.one_of(st.none(), st.none(), st.integers(1, 1023), st.integers(500, 1023)),
            "stub_decoy": st.one_of(st.none(), st.none(), st.sampled_from([0x69, 0x2E, 0x00, 0xAF])),
            "tail": st.one_of(st.just(0), st.integers(0, 300)),
            "bufsize": st.sampled_from(BUFS),
            "keys": keys,
            "entry": st.sampled_from(["bytes", "file", "path"]),
        }
    )


def make_filler(kind, n, rnd, keys):
    if n <= 0:
        return b""
    if kind == "zeros":
        return b"\x00" * n
    if kind == "ones":
        return b"\x01" * n
    if kind == "random":
        return rnd.randbytes(n)
    if kind == "gram":
        g = rnd.randbytes(4)
        return (g * (n // 4 + 1))[:n]
    if kind == "d1":
        # a payload that begins with the tail of a key-0x00 header
        return (b"\x01\x00\x01\x00\x02\x00" + b"\x41" * n)[:n]
    # near misses: truncated headers under interesting keys
    out = bytearray(rnd.randbytes(n))
    pos = 0
    while pos + 8 < n:
        k = rnd.choice(keys + [0x69, 0x2E, 0x00])
        cut = rnd.randint(1, 6)
        frag = needle(k)[:cut]
        out[pos : pos + cut] = frag
        out[pos + cut] = (needle(k)[cut] ^ 0x55) & 0xFF  # make sure the fragment does not complete
        pos += cut + 1 + rnd.randint(0, 40)
    return bytes(out)


def build(case):
    rnd = random.Random(case["seed"])
    blocks = case["blocks"]
    allkeys = [b["key"] for b in blocks]
    B = case["bufsize"] or 8192
    m, d = case["target"]
    target = max(0, m * B + d)
    if B < 64:
        target = min(target, 3 * B + 8)
    # bytes of the searched view that precede our data area
    data_parts = []
    info_blocks = []

    def obf(b):
        plain = tlv.encode([(1, SHORT, struct.pack(">H", b["proto"]))] + [tuple(s) for s in b["settings"]], terminator=True)
        if b["pad"] == "zero":
            plain = plain + b"\x00" * max(0, 4096 - len(plain))
        elif b["pad"] == "nonzero":
            plain = plain + bytes([0x5A]) * max(0, 4096 - len(plain))
        return plain, tlv.xor1(plain, b["key"])

    return rnd, blocks, allkeys, B, target, obf


def assemble(case):
    """Returns (file bytes, views[(name, bytes, xorencoded)], meta)."""
    rnd, blocks, allkeys, B, target, obf = build(case)
    container = case["container"]
    # base = offset inside the searched view at which our data area starts
    if container == "raw":
        base = 0
    else:
        # provisional image to learn where .data starts
        img0, info0 = pebuild.build_pe(arch=case["arch"], sections=((".text", b"\xcc" * 64), (".data", b"")))
        base = info0["sections"][1]["raw_ptr"] + (case["prepend"] if container == "xorpe" else 0)
    first_gap = max(0, target - base)
    if B < 64:
        first_gap = min(first_gap, 4 * B + 16)
    area = bytearray()
    placed = []
    for n, b in enumerate(blocks):
        gap = first_gap if n == 0 else b["gap"]
        if B < 64:
            gap = min(gap, 64)
        area += make_filler(case["filler"], gap, rnd, allkeys)
        plain, ob = obf(b)
        placed.append(dict(offset_in_area=len(area), key=b["key"], plain=plain, nsettings=1 + len(b["settings"])))
        area += ob
    if not blocks:
        area += make_filler(case["filler"], first_gap, rnd, allkeys)
    last_unpadded = bool(blocks) and blocks[-1]["pad"] == "none"
    tail = 0 if (last_unpadded and case["tail"] % 2 == 0) else case["tail"]
    area += make_filler(case["filler"] if case["filler"] != "d1" else "random", tail, rnd, allkeys)
    area = bytes(area)

    if container == "raw":
        view = area
        data = area
        views = [("raw", data, False)]
        true_off = None
    else:
        img, info = pebuild.build_pe(arch=case["arch"], sections=((".text", b"\xcc" * 64), (".data", area)))
        if container == "pe":
            data = img
            views = [("raw", data, False)]
            true_off = None
        else:
            sled = bytearray(b"\x90" * case["prepend"])
            if case.get("prepend_dword") and len(sled) >= 64:
                at = 60 + (case["prepend_dword"] * 7) % (len(sled) - 63)
                sled[at : at + 4] = struct.pack("<I", case["prepend_dword"])
            plainview = bytes(sled) + img
            stub = case["stub"].replace(b"\xff\xff\xff", b"\xff\xfe\xff")
            if case["stub_decoy"] is not None:
                k = case["stub_decoy"]
                short = tlv.encode([(1, SHORT, b"\x00\x00"), (2, SHORT, b"\x11\x5c")], terminator=True)
                stub = (stub[:200] + tlv.xor1(short, k) + stub[200:])[:1000]
                stub = stub.replace(b"\xff\xff\xff", b"\xff\xfe\xff")
            marker = case["marker_mode"] in ("both", "marker_only")
            size_ok = case["marker_mode"] in ("both", "size_only")
            data = xorenc.build_stage(plainview, case["nonce"], stub, marker=marker, size_ok=size_ok, bad_size=0x01020304)
            true_off = xorenc.nonce_offset(stub, marker)
            views = [("xor", plainview, True), ("raw", data, False)]
    return data, views, dict(true_off=true_off, placed=placed, B=B)


def ref_extract(views, tried, all_keys):
    """Expected outcome: ('one', view name, key, pos) | ('any', [(view, key, pos)...]) | None (ValueError)."""
    for name, v, _enc in views:
        for k in tried:
            pos = v.find(needle(k))
            if pos != -1:
                return ("one", [(name, k, pos)])
    if all_keys:
        left = [k for k in range(256) if k not in tried]
        for name, v, _enc in views:
            hits = []
            for k in left:
                pos = v.find(needle(k))
                if pos != -1:
                    hits.append((name, k, pos))
            if hits:
                return ("any", hits)
    return None


def execute(case, stats):
    from dissect.cobaltstrike.beacon import BeaconConfig

    data, views, meta = assemble(case)
    B = meta["B"]
    # --- domain guards (counted discards)
    if detect.marker_count(data) > 8:
        raise Discard("more than 8 nonce marker candidates")
    must, may = detect.validating(data)
    if meta["true_off"] is None:
        if must or may:
            raise Discard("raw container validates as XorEncoded")
    else:
        if must != [meta["true_off"]] or may:
            raise Discard("XorEncoded container with ambiguous candidates")
    km = case["keys"]
    if km["mode"] == "default":
        tried = list(DEFAULT_KEYS)
        kwargs = {}
    elif km["mode"] == "list":
        tried = list(km["list"])
        if km.get("include") and case["blocks"] and case["blocks"][0]["key"] not in tried:
            tried.insert(case["seed"] % (len(tried) + 1), case["blocks"][0]["key"])
        kwargs = {"xor_keys": [bytes([k]) for k in tried]}
    else:
        tried = list(km["list"]) or list(DEFAULT_KEYS)
        kwargs = {"all_xor_keys": True}
        if km["list"]:
            kwargs["xor_keys"] = [bytes([k]) for k in tried]
    bufsize = case["bufsize"]
    if km["mode"] == "all" and bufsize is not None and bufsize < 4096:
        bufsize = None  # all-keys mode scans the file ~500 times: keep the default buffer (cost only)
    want = ref_extract(views, tried, km["mode"] == "all")

    path = None
    # the documented parameters (fobj/data/path, xor_keys, all_xor_keys) by keyword or, every third case, by position
    args = ()
    if case["seed"] % 3 == 0:
        args, kwargs = (kwargs.get("xor_keys"), kwargs.get("all_xor_keys", False)), {}
    try:
        with buffer_size(bufsize):
            if case["entry"] == "bytes":
                r = lib(BeaconConfig.from_bytes, data, *args, allow=(ValueError,), what="BeaconConfig.from_bytes", **kwargs)
            elif case["entry"] == "file":
                fobj = io.BytesIO(data)
                fobj.seek(case["seed"] % (len(data) + 1))  # extraction must not depend on where the handle currently is
                r = lib(BeaconConfig.from_file, fobj, *args, allow=(ValueError,), what="BeaconConfig.from_file", **kwargs)
            else:
                fd, path = tempfile.mkstemp(prefix="c01_", dir="/dev/shm")
                with os.fdopen(fd, "wb") as f:
                    f.write(data)
                r = lib(BeaconConfig.from_path, path, *args, allow=(ValueError,), what="BeaconConfig.from_path", **kwargs)
    finally:
        if path:
            os.unlink(path)

    ctx = lambda: (
        f"container={case['container']} len={len(data)} buf={bufsize} keys={km} entry={case['entry']} "
        f"placed={[(p['offset_in_area'], hex(p['key'])) for p in meta['placed']]} expected={want} "
        f"got={'ValueError' if isinstance(r, Raised) else (r.xorkey, r.xorencoded, len(r.config_block))}"
    )
    vmap = {name: (v, enc) for name, v, enc in views}
    if want is None:
        check(isinstance(r, Raised), "extract:phantom_config", ctx)
        # the documented error is ValueError - a more specific subclass of it is fine; an incidental UnicodeError (also a
        # ValueError) from some decode step is not the documented "no configuration found"
        if isinstance(r.exc, UnicodeError):
            check(False, "extract:wrong_exception", ctx)
        found = None
    else:
        check(not isinstance(r, Raised), "extract:missed_block", ctx)
        kind, options = want
        ok = None
        for name, k, pos in options:
            v, enc = vmap[name]
            blk = tlv.xor1(v[pos : pos + 4096], k)
            if bytes(r.config_block) == blk and r.xorkey == bytes([k]) and r.xorencoded == enc:
                ok = (name, k, pos, blk)
                break
        if ok is None:
            name, k, pos = options[0]
            v, enc = vmap[name]
            if r.xorkey != bytes([k]) and kind == "one":
                check(False, "extract:wrong_key", ctx)
            if r.xorencoded != enc:
                check(False, "extract:wrong_xorencoded_flag", ctx)
            check(False, "extract:wrong_block", ctx)
        name, k, pos, blk = ok
        got = [(s.index.value, s.type.value, s.length, bytes(s.value)) for s in r.settings_tuple]
        eq(got, tlv.decode(blk), "extract:settings", "settings of the extracted block")
        found = ok
    nset = len(tlv.decode(found[3])) if found else 0
    straddle = False
    if found:
        pos = found[2]
        straddle = pos // B != (pos + 6) // B
    stats.note(
        case,
        bool(found) and (found[2] > 0 or case["container"] != "raw") and nset >= 2,
        classes=[
            "container_" + case["container"],
            "keys_" + km["mode"],
            "entry_" + case["entry"],
            "buf_%s" % ("default" if bufsize is None else "patched"),
            "found" if found else "valueerror",
            "header_straddles_read_boundary" if straddle else "no_straddle",
            "offset0" if found and found[2] == 0 else "offset>0",
            "key00" if found and found[1] == 0 else "key_other",
            "decoys" if len(case["blocks"]) > 1 or case["stub_decoy"] is not None else "single",
            "short_block_at_eof" if found and len(found[3]) < 4096 else "full_block",
            "leftover_key" if found and want[0] == "any" else "tried_key",
        ],
    )


# ------------------------------------------------------------------------------------------ deterministic boundary sweep
def sweep_enumerate(tier, shard, nshards):
    """Every alignment of the 7-byte header around a read boundary, for every default key, raw and XorEncoded, with
    and without a second block behind the boundary - covered on every run, not left to chance."""
    from ..runner import shard_iter

    def gen():
        bufs = [None, 16] if tier == "quick" else [None, 16, 5, 100]
        for buf in bufs:
            for m in (1, 2):
                for d in range(-8, 3):
                    for key in (0x69, 0x2E, 0x00):
                        for container in ("raw", "xorpe"):
                            for second in (False, True):
                                yield {"buf": buf, "m": m, "d": d, "key": key, "container": container, "second": second}

    return shard_iter(gen(), shard, nshards)


def sweep_execute(case, stats):
    blocks = [{"proto": 8, "settings": [(2, SHORT, b"\x11\x5c"), (37, INT, b"\x00\x00\x00\x01")], "key": case["key"], "pad": "zero", "gap": 0}]
    if case["second"]:
        blocks.append({"proto": 0, "settings": [(2, SHORT, b"\x1f\x90"), (37, INT, b"\x00\x00\x00\x02")], "key": case["key"], "pad": "zero", "gap": 40})
    full = {
        "blocks": blocks, "filler": "random", "seed": 1000 + case["m"] * 17 + case["d"], "target": (case["m"], case["d"]), "container": case["container"],
        "arch": "x86", "stub": b"\xfc" * 30, "nonce": b"\x13\x57\x9b\xdf", "marker_mode": "both", "prepend": 0, "stub_decoy": None, "tail": 10,
        "bufsize": case["buf"], "keys": {"mode": "default", "list": []}, "entry": "bytes",
    }  # fmt: skip
    execute(full, stats)


# ------------------------------------------------------------------------------------------ two blocks, two keys
def priority_enumerate(tier, shard, nshards):
    """Payloads holding two blocks under different keys - the first right at offset 0 (or a few bytes in), the second
    behind it: whichever entry point is used and however the key list is given, the block reported is the one the
    documented key order selects (keys are tried in list order, each over the whole payload)."""
    from ..runner import shard_iter

    def gen():
        keysets = [{"mode": "default", "list": []}, {"mode": "list", "include": False, "list": [0x69, 0x00]}, {"mode": "list", "include": False, "list": [0x00, 0x69]},
                   {"mode": "list", "include": False, "list": [0xAF, 0x00]}, {"mode": "list", "include": False, "list": [0x2E, 0xAF, 0x00]}]  # fmt: skip
        for first in (0x00, 0x2E, 0x69, 0xAF):
            for second in (0x00, 0x2E, 0x69, 0xAF):
                if first == second:
                    continue
                for d in (0, 3):
                    for entry in ("bytes", "file", "path"):
                        for km in keysets:
                            yield {"first": first, "second": second, "d": d, "entry": entry, "keys": km}

    return shard_iter(gen(), shard, nshards)


def priority_execute(case, stats):
    blocks = [
        {"proto": 8, "settings": [(2, SHORT, b"\x11\x5c"), (37, INT, b"\x00\x00\x00\x01")], "key": case["first"], "pad": "zero", "gap": 0},
        {"proto": 0, "settings": [(2, SHORT, b"\x1f\x90"), (37, INT, b"\x00\x00\x00\x02")], "key": case["second"], "pad": "zero", "gap": 40},
    ]
    full = {
        "blocks": blocks, "filler": "random", "seed": 77 + case["first"] * 3 + case["second"], "target": (0, case["d"]), "container": "raw",
        "arch": "x86", "stub": b"", "nonce": b"\x13\x57\x9b\xdf", "marker_mode": "both", "prepend": 0, "stub_decoy": None, "tail": 10,
        "bufsize": None, "keys": case["keys"], "entry": case["entry"],
    }  # fmt: skip
    execute(full, stats)


# ------------------------------------------------------------------------------------------ small XorEncoded stages
def small_enumerate(tier, shard, nshards):
    """Stages well below 1 KiB/2 KiB: a short prepend holding a false e_lfanew (pointing into or past the end of the
    stage) in front of the real image, the block right at the start of .data, every entry point and marker mode."""
    from ..runner import shard_iter

    def gen():
        for prepend in (0, 64, 100, 300):
            for dword in (None, 1, 300, 700, 1023):
                for key in (0x69, 0x2E, 0x00):
                    for n, (mode, entry, arch) in enumerate([("both", "bytes", "x86"), ("marker_only", "file", "x64"), ("size_only", "path", "x86")]):
                        yield {"prepend": prepend, "dword": dword, "key": key, "mode": mode, "entry": entry, "arch": arch}
        # no stub at all (the nonce is the first dword of the file) and a one-byte stub: located through the size field
        for stub in (0, 1):
            for key in (0x69, 0x2E, 0x00):
                for entry in ("bytes", "file", "path"):
                    yield {"prepend": 0, "dword": None, "key": key, "mode": "size_only", "entry": entry, "arch": "x86", "stub": stub}

    return shard_iter(gen(), shard, nshards)


def small_execute(case, stats):
    blocks = [{"proto": 0, "settings": [(2, SHORT, b"\x01\xbb"), (37, INT, b"\x00\x00\x00\x07")], "key": case["key"], "pad": "none", "gap": 0}]
    full = {
        "blocks": blocks, "filler": "zeros", "seed": 7, "target": (0, 0), "container": "xorpe", "arch": case["arch"], "stub": b"\xfc" * case.get("stub", 12),
        "nonce": b"\x21\x43\x65\x87", "marker_mode": case["mode"], "prepend": case["prepend"], "prepend_dword": case["dword"], "stub_decoy": None,
        "tail": 0, "bufsize": None, "keys": {"mode": "default", "list": []}, "entry": case["entry"],
    }  # fmt: skip
    execute(full, stats)


# ------------------------------------------------------------------------------------------ real samples and large payloads
def big_enumerate(tier, shard, nshards):
    from .. import samples
    from ..runner import shard_iter

    def gen():
        for name in sorted(samples.NAMES):
            yield {"kind": "sample", "name": name, "mode": "keys"}
        for name in ("beacon_custom_xorkey", "dns_beacon"):
            yield {"kind": "sample", "name": name, "mode": "all"}
        for off in (65529, 65536, 100000, 131071, 262144 - 3):
            for container in ("raw", "xorpe"):
                yield {"kind": "large", "offset": off, "container": container, "key": 0x2E if off % 2 else 0x69}

    return shard_iter(gen(), shard, nshards)


def big_execute(case, stats):
    from dissect.cobaltstrike.beacon import BeaconConfig

    if case["kind"] == "sample":
        from .. import samples
        from ..ref import anchor_samples as A

        name = case["name"]
        meta = A.fixture()[name]
        data = samples.sample(name)
        if case["mode"] == "keys":
            r = lib(BeaconConfig.from_bytes, data, xor_keys=samples.SAMPLE_KEYS, what=f"from_bytes({name})")
        else:
            r = lib(BeaconConfig.from_bytes, data, all_xor_keys=True, what=f"from_bytes({name}, all_xor_keys)")
        if not meta["guardrails"]:
            eq(r.xorkey, meta["xorkey"], "sample:xorkey", f"{name}: xor key")
            eq(bytes(r.config_block), A.sample_block(name), "sample:config_block", f"{name}: configuration block vs reference extraction")
        eq(r.xorencoded, meta["xorencoded"], "sample:xorencoded", f"{name}: xorencoded flag")
        eq(lib(lambda: r.setting_enums), meta["setting_enums"], "sample:setting_enums", f"{name}: setting indices in order")
        got = [(s_.index.value, s_.type.value, s_.length, bytes(s_.value)) for s_ in r.settings_tuple]
        eq(got, tlv.decode(bytes(r.config_block)), "sample:settings", f"{name}: settings vs reference decoding of the block")
        stats.note(case, True, classes=["real_sample_" + case["mode"]])
        return
    # a block far into a large payload (beyond 64 KiB / 128 KiB / 256 KiB)
    rnd = random.Random(case["offset"])
    plain = tlv.encode([(1, SHORT, b"\x00\x08"), (2, SHORT, b"\x01\xbb"), (37, INT, struct.pack(">I", case["offset"]))], pad_to=4096)
    ob = tlv.xor1(plain, case["key"])
    filler = bytes(b if b != 0xFF else 0xFE for b in rnd.randbytes(case["offset"]))
    if case["container"] == "raw":
        data = filler + ob + rnd.randbytes(100)
        views = [("raw", data, False)]
    else:
        img, info = pebuild.build_pe(arch="x64", sections=((".text", b"\xcc" * 64), (".data", b"")))
        base = info["sections"][1]["raw_ptr"]
        area = filler[: max(0, case["offset"] - base)] + ob + rnd.randbytes(100)
        img, info = pebuild.build_pe(arch="x64", sections=((".text", b"\xcc" * 64), (".data", area)))
        data = xorenc.build_stage(img, b"\x9a\x02\x7c\x41", b"\xfc" * 40, marker=True)
        views = [("xor", img, True), ("raw", data, False)]
    must, may = detect.validating(data)
    if (case["container"] == "raw" and (must or may)) or detect.marker_count(data) > 8:
        raise Discard("ambiguous detection")
    want = ref_extract(views, list(DEFAULT_KEYS), False)
    r = lib(BeaconConfig.from_bytes, data, what="from_bytes(large payload)")
    name, k, pos = want[1][0]
    v = dict((n, vv) for n, vv, _ in views)[name]
    eq(bytes(r.config_block), tlv.xor1(v[pos : pos + 4096], k), "extract:wrong_block", f"block at offset {pos} of a {len(data)}-byte {case['container']} payload")
    eq((r.xorkey, r.xorencoded), (bytes([k]), name == "xor"), "extract:wrong_key", "key / xorencoded flag of the large payload")
    stats.note(case, True, classes=["large_" + case["container"]])


SUBS = [
    Sub("small_stages", small_execute, enumerate=small_enumerate, exhaustive=True),
    Sub("real_samples_and_large_payloads", big_execute, enumerate=big_enumerate, exhaustive=True),
    Sub("extract", execute, strategy=case_strategy, examples={"quick": 2400, "thorough": 48000}),
    Sub("boundary_sweep", sweep_execute, enumerate=sweep_enumerate, exhaustive=True),
    Sub("key_priority", priority_execute, enumerate=priority_enumerate, exhaustive=True),
]
