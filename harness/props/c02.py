"""C02 - settings are decoded exactly and all views agree."""

import re
import struct

from hypothesis import strategies as st

from .. import strategies as S
from ..oracle import check, eq, lib
from ..ref import naming
from ..ref import programs as P
from ..ref import tlv
from ..runner import Sub, Violation

PROPERTY = "C02"
LEVEL = "exploration"
RULE = (
    "Hypothesis-generated TLV sequences: 0-20 records, any 16-bit index except 0 (known, aliased 16/17/48, 36 by "
    "type, unknown), type 0-3, length 0..65535 (values mostly short, occasionally maximal), duplicates, optional "
    "terminator, zero padding, trailing garbage after the terminator, truncated final record, and the User-Agent "
    "continuation edge. Indices that have a pretty-printer receive well-formed values of their natural type. "
    "Oracle: independent reference decoder (harness/ref/tlv.py) for settings_tuple; all views and all 12 "
    "settings_map variants compared for key order and values. Non-trivial: >=3 records and at least one of "
    "{duplicate, unknown index, zero length, trailing bytes, UA edge, index 36}. Distinct by content."
)
ASSUMPTIONS = [
    "an empty SHORT/INT value is only required to be the same integer in every view",
    "for a duplicated index the value may come from any duplicate but from the same one in every view",
    "a block never contains both a SHORT and a non-SHORT record of index 36 (their names differ, constants collide)",
    "an index unknown to the frozen name table may be reported as BeaconSetting_<n> or under a new SETTING_* name",
]

KNOWN = sorted(naming.NAMES) + [36]


def _wellformed_value(index):
    """(type, value) strategy for indices that have a pretty-printer: natural type, C03-well-formed value."""
    if index in naming.STRING_PRETTY or index in naming.BYTES_PRETTY:
        return st.tuples(st.just(3), S.binary(0, 40))
    if index in (12, 13):
        return st.tuples(st.just(3), S.any_transform_program("metadata" if index == 12 else "id").map(lambda s: P.enc_transform(s, build0="metadata" if index == 12 else "id")))
    if index == 11:
        return st.tuples(st.just(3), S.any_recover_program().map(P.enc_recover))
    if index == 51:
        return st.tuples(st.just(3), S.execute_list().map(P.enc_execute))
    if index in (46, 47):
        return st.tuples(st.just(3), st.tuples(S.arg_bytes, S.arg_bytes).map(lambda t: P.enc_procinj_transform(*t)))
    if index == 42:
        return st.tuples(st.just(3), S.section_table().map(P.enc_sections))
    if index in (57, 58):
        return st.tuples(st.just(3), S.binary(0, 20).map(P.enc_pivot_frame))
    if index == 19:
        return st.tuples(st.just(2), st.binary(min_size=4, max_size=4))
    if index == 16:
        return st.tuples(st.just(1), st.binary(min_size=2, max_size=2))
    if index == 78:
        return st.tuples(st.just(3), S.gate_flags.map(P.enc_beacon_gate))
    if index == 36:
        return st.one_of(st.tuples(st.just(1), st.binary(min_size=2, max_size=2)), st.tuples(st.just(3), S.binary(0, 40)))
    raise AssertionError(index)


def _free_value():
    """(type, value) for indices without pretty-printer: any type 0-3, any length."""
    val = st.one_of(
        st.just(b""),
        st.binary(min_size=2, max_size=2),
        st.binary(min_size=4, max_size=4),
        st.binary(min_size=1, max_size=3),  # numeric records narrower than their natural width
        S.binary(0, 24),
        st.binary(min_size=200, max_size=700),
    )
    return st.tuples(st.integers(0, 3), val)


def record():
    idx = st.one_of(
        st.sampled_from(KNOWN),
        st.sampled_from([16, 17, 48, 36, 75, 79, 80, 255, 256, 0x7FFF, 0xFFFF, 6969]),
        st.integers(1, 0xFFFF),
    )
    return idx.flatmap(lambda i: st.tuples(st.just(i), _wellformed_value(i) if i in naming.PRETTY else _free_value()))


def case_strategy():
    return st.fixed_dictionaries(
        {
            "records": st.lists(record(), max_size=20),
            "dup": st.lists(st.integers(0, 19), max_size=3),  # positions to duplicate (index re-used with a new value)
            "dupvals": st.lists(st.binary(min_size=2, max_size=2), min_size=3, max_size=3),
            "big": st.one_of(st.none(), st.none(), st.none(), st.tuples(st.integers(0, 20), st.sampled_from([65535, 65534, 32768, 4096]))),
            "ua": st.one_of(
                st.none(),
                st.none(),
                st.tuples(st.integers(0, 20), st.one_of(st.integers(0, 60), st.sampled_from([127, 128, 129, 255, 256, 257, 511, 1000]), st.integers(0, 700)), st.integers(0x41, 0x7A)),
            ),
            "end": st.sampled_from(["terminator", "terminator", "eof", "truncated", "padding", "garbage"]),
            "garbage": S.binary(0, 40),
            "truncate": st.integers(1, 9),
            # the block is also decoded from a stream in which it starts at this offset (after unrelated bytes)
            "stream_off": st.one_of(st.just(0), st.integers(1, 70), st.sampled_from([4096, 8192])),
        }
    )


def build(case):
    recs = [(i, t, v) for i, (t, v) in case["records"]]
    # only one flavour of index 36 per block
    t36 = None
    out = []
    for i, t, v in recs:
        if i == 36:
            flav = "short" if t == 1 else "other"
            if t36 is None:
                t36 = flav
            elif t36 != flav:
                continue
        out.append((i, t, v))
    recs = out
    for n, pos in enumerate(case["dup"]):
        if recs:
            i, t, v = recs[pos % len(recs)]
            newv = v if i in naming.PRETTY else case["dupvals"][n]
            recs.append((i, t, newv if i not in naming.PRETTY else v[::-1] if i in naming.STRING_PRETTY | naming.BYTES_PRETTY else v))
    if case["big"] is not None:
        pos, size = case["big"]
        recs.insert(min(pos, len(recs)), (33, 3, bytes([0x42]) * size))
    has_ua = False
    if case["ua"] is not None:
        pos, extra, ch = case["ua"]
        ua = bytes([ch]) * 0x80
        blob = tlv.enc_setting(9, 3, ua) + bytes([ch + 1]) * extra
        recs = [r for r in recs if r[0] != 9]
        pos = min(pos, len(recs))
        # the continuation runs up to the next NUL byte: the following record must start with one (index < 256),
        # otherwise the stream is mis-aligned from there on and no longer a well-formed sequence of settings
        while pos < len(recs) and recs[pos][0] >= 256:
            pos += 1
        recs.insert(pos, ("RAW", blob))
        has_ua = True
    body = b""
    for r in recs:
        body += r[1] if r[0] == "RAW" else tlv.enc_setting(*r)
    end = case["end"]
    if has_ua and end in ("eof", "truncated"):
        end = "terminator"  # the continuation must meet a NUL (the unterminated case belongs to C08)
    if end == "terminator":
        body += b"\x00\x00"
    elif end == "padding":
        body += b"\x00" * 64
    elif end == "garbage":
        body += b"\x00\x00" + case["garbage"]
    elif end == "truncated" and body:
        body = body[: max(0, len(body) - case["truncate"])]
    return body, has_ua, end


def same(a, b):
    """Equal values of the same kind (cstruct returns bytes/int subclasses)."""
    for kind in (bytes, int, str, list, tuple):
        if isinstance(b, kind):
            return isinstance(a, kind) and a == b
    return a == b


def raw_expect(typ, value):
    """(expected raw python value, exact?)"""
    # a SHORT / INT record whose length field is larger than its natural width still exposes the unsigned integer held
    # in its LEADING 2 / 4 bytes; a shorter value is the big-endian unsigned integer of exactly the bytes serialized
    # (no byte is invented on either side: 07 is 7, 01 02 is 258); only the empty value is left unspecified
    if typ == 1:
        return int.from_bytes(value[:2], "big"), len(value) >= 1
    if typ == 2:
        return int.from_bytes(value[:4], "big"), len(value) >= 1
    return value, True


def execute(case, stats):
    from dissect.cobaltstrike.beacon import BeaconConfig

    block, has_ua, end = build(case)
    ref = tlv.decode(block)
    c = lib(BeaconConfig, block, what="BeaconConfig(block)")
    st_ = c.settings_tuple
    got = [(s.index.value, s.type.value, s.length, bytes(s.value)) for s in st_]
    eq(got, ref, "decode:settings_tuple", f"settings_tuple of {len(block)}-byte block {block[:60].hex()}...")
    eq(lib(lambda: c.setting_enums), [r[0] for r in ref], "decode:setting_enums", "setting_enums")
    if ref:
        eq(lib(lambda: c.max_setting_enum), max(r[0] for r in ref), "decode:max_setting_enum", "max_setting_enum")

    order = list(dict.fromkeys(r[0] for r in ref))  # order of first occurrence
    dups = {i: [r for r in ref if r[0] == i] for i in order}
    views = {
        "raw_settings": lib(lambda: c.raw_settings),
        "raw_settings_by_index": lib(lambda: c.raw_settings_by_index),
        "settings": lib(lambda: c.settings),
        "settings_by_index": lib(lambda: c.settings_by_index),
    }
    maps = {}
    for it in ("name", "const", "enum"):
        for pretty in (False, True):
            for parse in (False, True):
                maps[(it, pretty, parse)] = lib(c.settings_map, index_type=it, pretty=pretty, parse=parse, what=f"settings_map({it},{pretty},{parse})")

    def const_of(key):
        return key if isinstance(key, int) and not hasattr(key, "value") else getattr(key, "value", key)

    # names
    name_keys = list(views["raw_settings"].keys())
    eq(len(name_keys), len(order), "views:name_key_count", f"number of name keys {name_keys} vs indices {order}")
    for key, idx in zip(name_keys, order):
        typ = dups[idx][0][1]
        allowed = naming.allowed_names(idx, typ)
        if allowed is None:
            ok = key == f"BeaconSetting_{idx}" or re.fullmatch(r"SETTING_[A-Z0-9_]+", key) is not None
        else:
            ok = key in allowed
        check(ok, "names:wrong_name", f"index {idx} type {typ} named {key!r}, allowed {allowed or 'BeaconSetting_%d' % idx}")
    eq(list(views["settings"].keys()), name_keys, "views:name_keys_differ", "keys of settings vs raw_settings")
    # the name-indexed views use the very names of the enum-indexed view's keys and of the decoded records (aliased
    # indices 16, 17, 48 have two names: every view must pick the same one)
    enum_names = [getattr(k, "name", None) for k in maps[("enum", False, False)].keys()]
    enum_names = [n if n is not None else nk for n, nk in zip(enum_names, name_keys)]  # unknown indices: no member name
    eq(name_keys, enum_names, "views:name_vs_enum_name", f"name-indexed keys vs names of the enum-indexed keys (indices {order})")
    first_rec_names = {}
    for s_ in st_:
        first_rec_names.setdefault(s_.index.value, s_.index.name)
    eq(name_keys, [first_rec_names[i] if first_rec_names[i] is not None else nk for i, nk in zip(order, name_keys)], "views:name_vs_record_name", f"name-indexed keys vs Setting.index.name of the decoded records (indices {order})")
    eq(list(views["raw_settings_by_index"].keys()), order, "views:const_order", "raw_settings_by_index key order")
    eq(list(views["settings_by_index"].keys()), order, "views:const_order_pretty", "settings_by_index key order")
    for (it, pretty, parse), m in maps.items():
        keys = list(m.keys())
        if it == "name":
            eq(keys, name_keys, "views:map_name_keys", f"settings_map(name,{pretty},{parse}) keys")
        else:
            eq([const_of(k) for k in keys], order, "views:map_order", f"settings_map({it},{pretty},{parse}) key order")

    # values
    for pos, idx in enumerate(order):
        nk = name_keys[pos]
        rawbytes = [list(maps[(it, False, False)].values())[pos] for it in ("name", "const", "enum")]
        check(rawbytes[0] == rawbytes[1] == rawbytes[2], "values:unparsed_differ", f"index {idx}: parse=False values differ across index types")
        J = [r for r in dups[idx] if r[3] == rawbytes[0]]
        check(bool(J), "values:unparsed_wrong", f"index {idx}: unparsed value {rawbytes[0][:40]!r} is none of the serialized values")
        raws = [views["raw_settings"][nk], views["raw_settings_by_index"][idx]] + [list(maps[(it, False, True)].values())[pos] for it in ("name", "const", "enum")]
        check(all(same(r, raws[0]) for r in raws), "values:raw_views_differ", f"index {idx}: raw views disagree: {raws!r}"[:500])
        ok = False
        for r in J:
            want, exact = raw_expect(r[1], r[3])
            if exact:
                ok = ok or same(raws[0], want)
            else:
                ok = ok or isinstance(raws[0], int)
        check(ok, "values:raw_wrong", f"index {idx}: raw value {raws[0]!r} does not match serialized {[(r[1], r[3][:16]) for r in J]}")
        pretties = [views["settings"][nk], views["settings_by_index"][idx]] + [list(maps[(it, True, p)].values())[pos] for it in ("name", "const", "enum") for p in (False, True)]
        check(all(p == pretties[0] for p in pretties), "values:pretty_views_differ", f"index {idx}: pretty views disagree: {pretties!r}"[:500])
        if idx not in naming.PRETTY:
            check(same(pretties[0], raws[0]), "values:pretty_not_raw", f"index {idx} has no pretty-printer but pretty {pretties[0]!r} != raw {raws[0]!r}"[:500])

    # the same block read from a file object positioned at its start inside a larger stream
    off = case.get("stream_off")
    if off is not None:
        import io

        from dissect.cobaltstrike.beacon import iter_settings

        stream = io.BytesIO(bytes((i * 37 + 1) & 0xFF or 1 for i in range(off)) + block)
        stream.seek(off)
        got_f = lib(lambda: [(s.index.value, s.type.value, s.length, bytes(s.value)) for s in iter_settings(stream)], what="iter_settings(stream at offset)")
        eq(got_f, ref, "decode:stream_offset", f"iter_settings on a stream positioned at offset {off} of {off + len(block)} bytes")
        _, end_pos = tlv.decode(block, with_end=True)
        if end_pos is not None:
            eq(stream.tell(), off + end_pos, "decode:stream_end_position", f"position after decoding a terminated block that starts at offset {off}")
        # the same through a buffered reader (what open(path, "rb") returns); a small buffer puts its refill boundaries at
        # every kind of place - inside a record header, inside a value, between the two bytes of the terminator
        data_ = stream.getvalue()
        for bs in (2 + (len(data_) % 7) * 3, 16):
            buffered = io.BufferedReader(io.BytesIO(data_), buffer_size=bs)
            buffered.seek(off)
            got_b = lib(lambda: [(s.index.value, s.type.value, s.length, bytes(s.value)) for s in iter_settings(buffered)], what=f"iter_settings(BufferedReader, buffer_size={bs})")
            eq(got_b, ref, "decode:buffered_stream", f"iter_settings on a BufferedReader (buffer_size={bs}) positioned at offset {off} of {len(data_)} bytes")
            if end_pos is not None:
                eq(buffered.tell(), off + end_pos, "decode:buffered_end_position", f"position of the BufferedReader (buffer_size={bs}) after a terminated block that starts at offset {off}")
    # read-only views are cached: same object on re-access
    check(c.settings is views["settings"] and c.raw_settings is views["raw_settings"], "views:not_cached", "views must be cached")
    nrec = len(ref)
    feats = []
    if any(len(v) > 1 for v in dups.values()):
        feats.append("duplicate")
    if any(naming.allowed_names(i, 0) is None for i in order):
        feats.append("unknown_index")
    if any(r[2] == 0 for r in ref):
        feats.append("zero_length")
    if end in ("garbage", "padding"):
        feats.append("trailing_bytes")
    if has_ua:
        feats.append("ua_edge")
    if 36 in order:
        feats.append("index36")
    if any(r[2] >= 32768 for r in ref):
        feats.append("huge_value")
    if off:
        feats.append("stream_at_offset")
    stats.note(case, nrec >= 3 and bool(feats), classes=feats + ["end_" + end, "records_%s" % ("0" if nrec == 0 else "1-2" if nrec < 3 else "3+")])


# ------------------------------------------------------------------------------------------ atheris differential (thorough)
import collections

COUNTERS = collections.Counter()


def fuzz_block(data: bytes):
    """Coverage-guided differential target: arbitrary block bytes, library decode vs reference decode."""
    from dissect.cobaltstrike.beacon import BeaconConfig

    data = bytes(data)
    ref = tlv.decode(data)
    c = lib(BeaconConfig, data, what="BeaconConfig(block)")
    got = [(s.index.value, s.type.value, s.length, bytes(s.value)) for s in c.settings_tuple]
    if got != ref:
        raise Violation("decode:settings_tuple", f"block {data[:80].hex()}... ({len(data)} bytes): library {got[:3]!r}... reference {ref[:3]!r}...")
    eq(lib(lambda: c.setting_enums), [r[0] for r in ref], "decode:setting_enums", "setting_enums")
    order = list(dict.fromkeys(r[0] for r in ref))
    both36 = len({("s" if r[1] == 1 else "o") for r in ref if r[0] == 36}) > 1
    if not both36:
        eq(list(lib(lambda: c.raw_settings_by_index).keys()), order, "views:const_order", "raw_settings_by_index key order")
        m = lib(c.settings_map, index_type="const", pretty=False, parse=False)
        for idx in order:
            check(any(r[3] == bytes(m[idx]) for r in ref if r[0] == idx), "values:unparsed_wrong", f"index {idx}: {bytes(m[idx])[:20]!r}")
    COUNTERS["records_%s" % ("0" if not ref else "1-2" if len(ref) < 3 else "3+")] += 1


def fuzz_execute(case, stats):
    fuzz_block(case["data"])
    stats.note(case, len(tlv.decode(case["data"])) >= 3, classes=["fuzz_replay"])


def fuzz_custom(tier, seed, shard, nshards, stats, rec):
    if tier != "thorough":
        return
    from ..fuzz.run import campaign

    seeds = []
    if shard % 2 == 0:  # half of the campaigns start from small valid blocks, half from an empty corpus
        seeds = [
            tlv.encode([(1, 1, b"\x00\x08"), (2, 1, b"\x01\xbb"), (3, 2, b"\x00\x00\xea\x60")]),
            tlv.encode([(1, 1, b"\x00\x00"), (9, 3, b"U" * 0x80), (36, 1, b"\x00\x01")]) + b"trailing",
            tlv.encode([(6969, 3, b"abc"), (36, 3, b"hash\x00"), (16, 1, b"\x00\x02"), (16, 1, b"\x00\x01")], terminator=False),
        ]
    campaign("harness.props.c02", "fuzz_block", seeds, runs=150000, seed=seed, stats=stats, max_len=1024)
    stats.note({"shard": shard, "seeded": bool(seeds)}, True, classes=["atheris_campaign_seeded" if seeds else "atheris_campaign_empty_corpus"])


def large_enumerate(tier, shard, nshards):
    from ..runner import shard_iter

    def gen():
        for n, vlen in ((2000, 4), (900, 60), (5000, 0), (70, 900)):
            yield {"n": n, "vlen": vlen}

    return shard_iter(gen(), shard, nshards)


def large_execute(case, stats):
    """Blocks with very many records / beyond 6, 8 and 64 KiB: decoding and view agreement."""
    from dissect.cobaltstrike.beacon import BeaconConfig

    recs = []
    for i in range(case["n"]):
        idx = 100 + (i % 400) if i % 7 else 37
        typ = 3 if case["vlen"] not in (2, 4) else (2 if case["vlen"] == 4 else 1)
        recs.append((idx, typ, bytes([(i * 7 + j) & 0xFF for j in range(case["vlen"])])))
    block = tlv.encode(recs) + b"garbage after the terminator"
    ref = tlv.decode(block)
    assert len(ref) == case["n"]
    c = lib(BeaconConfig, block, what="BeaconConfig(large block)")
    got = [(s_.index.value, s_.type.value, s_.length, bytes(s_.value)) for s_ in c.settings_tuple]
    if got != ref:
        i = next((k for k, (a, b) in enumerate(zip(got, ref)) if a != b), min(len(got), len(ref)))
        check(False, "decode:settings_tuple", f"{case['n']} records of {case['vlen']} bytes ({len(block)}-byte block): {len(got)} decoded, first difference at record {i}")
    order = list(dict.fromkeys(r[0] for r in ref))
    eq(list(lib(lambda: c.raw_settings_by_index).keys()), order, "views:const_order", "key order of a large block")
    eq(len(lib(lambda: c.settings)), len(order), "views:name_key_count", "number of name keys of a large block")
    # bytes and file-object input agree
    import io

    from dissect.cobaltstrike.beacon import iter_settings

    n_file = sum(1 for _ in lib(lambda: list(iter_settings(io.BytesIO(block))), what="iter_settings(BytesIO)"))
    eq(n_file, case["n"], "decode:file_vs_bytes", "iter_settings on a file object vs bytes")
    stats.note(case, True, classes=["large_block"])


# ------------------------------------------------------------------------------------------ several index-36 records
def idx36_strategy():
    rec = st.one_of(
        st.tuples(st.just(36), st.sampled_from([1, 1, 3, 2, 0]), S.binary(0, 12)),
        st.tuples(st.sampled_from([1, 2, 3, 16, 37, 6969]), st.sampled_from([1, 2, 3]), S.binary(0, 8)),
    )
    return st.fixed_dictionaries({"records": st.lists(rec, min_size=2, max_size=7)})


def idx36_execute(case, stats):
    """Index 36 is named by the type of each record (SHORT: INJECT_OPTIONS, otherwise WATERMARKHASH) - also when a
    block holds several index-36 records of different types. (The main sub-check keeps one flavour per block because
    both flavours share the constant 36 in the constant-indexed views.)"""
    from dissect.cobaltstrike.beacon import BeaconConfig

    recs = [(i, t, (bytes(v) + b"\x00\x00")[:2] if t == 1 else (bytes(v) + b"\x00" * 4)[:4] if t == 2 else bytes(v)) for i, t, v in case["records"]]
    block = tlv.encode(recs)
    ref = tlv.decode(block)
    c = lib(BeaconConfig, block, what="BeaconConfig(block)")
    got = [(s_.index.value, s_.type.value, s_.length, bytes(s_.value)) for s_ in c.settings_tuple]
    eq(got, ref, "decode:settings_tuple", f"settings_tuple of {block.hex()}")
    flav = lambda t: "SETTING_INJECT_OPTIONS" if t == 1 else "SETTING_WATERMARKHASH"
    for s_, (i, t, _l, v) in zip(c.settings_tuple, ref):
        if i == 36:
            eq(s_.index.name, flav(t), "names:index36_by_type", f"name of the index-36 record of type {t} in {[(r[0], r[1]) for r in ref]}")
    raw = lib(lambda: c.raw_settings)
    for t_flav in {flav(t) for i, t, _l, v in ref if i == 36}:
        check(t_flav in raw, "names:index36_by_type", f"{t_flav} missing from the name-indexed view of {[(r[0], r[1]) for r in ref]}: {list(raw)}")
        vals = [raw_expect(t, v) for i, t, _l, v in ref if i == 36 and flav(t) == t_flav]
        check(any(same(raw[t_flav], want) for want, exact in vals if exact) or not all(e for _w, e in vals), "values:raw_wrong", f"{t_flav} = {raw[t_flav]!r}, serialized values of that kind: {vals}")
    kinds = {flav(t) for i, t, _l, v in ref if i == 36}
    stats.note(case, len(kinds) == 2, classes=["both_flavours" if len(kinds) == 2 else "one_flavour" if kinds else "no_index36"])


SUBS = [
    Sub("index36_mixed", idx36_execute, strategy=idx36_strategy, examples={"quick": 1600, "thorough": 32000}),
    Sub("large_blocks", large_execute, enumerate=large_enumerate, exhaustive=True),
    Sub("decode_views", execute, strategy=case_strategy, examples={"quick": 6400, "thorough": 128000}),
    Sub("atheris_differential", fuzz_execute, custom=fuzz_custom, shards={"quick": 1, "thorough": 4}),
]
