"""C03 - structured settings decode Cobalt Strike's binary encodings exactly."""

import hashlib
import struct

from hypothesis import strategies as st

from .. import samples
from .. import strategies as S
from ..oracle import check, eq, lib
from ..ref import programs as P
from ..ref import tlv
from ..runner import Sub, shard_iter

PROPERTY = "C03"
LEVEL = "exploration"
RULE = (
    "Programs generated from a grammar (transform programs with 1-3 BUILD blocks and any ordering/repetition of all "
    "opcodes with arbitrary byte arguments; recover programs over all 8 opcodes with full-width lengths; execute "
    "lists incl. module!function+offset entries; process-inject transforms; section tables; pivot frames; NUL-padded "
    "strings with high bytes; DER blobs; IPv4 values; domain lists; kill dates; BeaconGate vectors) are encoded by "
    "independent reference encoders, embedded in a configuration block and decoded through BeaconConfig.settings. "
    "BeaconGate: all 2^23 vectors in the thorough tier; quick: every vector with <=2 or >=21 bits set plus random. "
    "Non-trivial: program with >=3 steps incl. an argument step; execute list with an offset entry; BeaconGate vector "
    "neither all-0 nor all-1; string with NUL padding or high byte; derived case with >=2 domains. Distinct by content."
)
ASSUMPTIONS = [
    "Reference encoders (harness/ref/programs.py) are anchored: encode(decoded sample value) == the sample's raw bytes",
    "Process-inject transform layout is (prepend block, append block) as emitted by Cobalt Strike (samples carry the "
    "NOP sled of public profiles' `prepend` in the first block)",
    "NUL-terminated strings: latin-1 decoding of the bytes before the first NUL (the docstring's 'non-ascii ignored' "
    "reading is accepted as well)",
    "BeaconGate lists are compared as sets after expanding All/Comms/Core/Cleanup with the reference group table",
]

PTR, SHORT, INT = tlv.TYPE_PTR, tlv.TYPE_SHORT, tlv.TYPE_INT


def cfg(settings, proto=0):
    """BeaconConfig from reference-encoded settings [(index,type,value)] (protocol setting first, as in real blocks)."""
    from dissect.cobaltstrike.beacon import BeaconConfig

    block = tlv.encode([(1, SHORT, struct.pack(">H", proto))] + list(settings), pad_to=None)
    return lib(BeaconConfig, block, what="BeaconConfig(block)")


def pretty(c, name_options):
    s = lib(lambda: c.settings, what="BeaconConfig.settings")
    for n in name_options:
        if n in s:
            return s[n]
    raise AssertionError(f"none of {name_options} in {list(s)}")


# "stale": bytes that follow the terminator (and padding) inside the field, e.g. the remains of a longer program that was
# overwritten in place - a terminated program ends at its terminator
wrap = st.fixed_dictionaries(
    {
        "terminator": st.booleans(),
        "pad": st.sampled_from([0, 0, 16, 256]),
        "before": st.booleans(),
        "after": st.booleans(),
        "stale": st.one_of(st.just(b""), st.just(b""), st.binary(min_size=4, max_size=20), st.sampled_from([b"\x00\x00\x00\x03\x00\x00\x00\x08\x00\x00\x00\x02\x00\x00\x00\x07", b"\x00\x00\x00\x01\x00\x00\x00\x04AAAA", b"\x01\x03\x08"])),
    }
)


def stale_of(w):
    return bytes(w.get("stale") or b"")


def surround(case, settings):
    w = case["wrap"]
    out = []
    if w["before"]:
        out.append((2, SHORT, b"\x01\xbb"))
    out += settings
    if w["after"]:
        out.append((37, INT, b"\x00\x00\x30\x39"))
    return out


# ------------------------------------------------------------------------------------------ transform programs
def transform_strategy():
    return st.one_of(
        st.fixed_dictionaries({"setting": st.just(12), "steps": S.any_transform_program("metadata"), "wrap": wrap}),
        st.fixed_dictionaries({"setting": st.just(13), "steps": S.any_transform_program("id"), "wrap": wrap}),
    )


def transform_execute(case, stats):
    steps = [(n, a) for n, a in case["steps"]]
    build0 = "metadata" if case["setting"] == 12 else "id"
    w = case["wrap"]
    # without an explicit terminator the program must end with the value (zero padding doubles as terminator)
    raw = P.enc_transform(steps, build0=build0, terminator=w["terminator"] or w["pad"] > 0 or bool(stale_of(w)), pad_to=None)
    raw += b"\x00" * w["pad"] + stale_of(w)
    c = cfg(surround(case, [(case["setting"], PTR, raw)]))
    got = pretty(c, ["SETTING_C2_REQUEST" if case["setting"] == 12 else "SETTING_C2_POSTREQ"])
    want = [(n, a) for n, a in steps]
    eq([tuple(x) for x in got], want, "transform:steps", f"decoded transform program of setting {case['setting']}")
    for (n, a), g in zip(want, got):
        check(type(g[1]) is type(a), "transform:argtype", f"step {n}: argument type {type(g[1])} vs {type(a)}")
    nargs = sum(1 for n, a in steps if isinstance(a, bytes))
    stats.note(
        case,
        len(steps) >= 3 and nargs >= 1,
        classes=[f"setting{case['setting']}", "empty_arg" if any(a == b"" for _, a in steps) else "no_empty_arg", "multi_build" if sum(n == "BUILD" for n, _ in steps) > 1 else "single_build"],
    )


# ------------------------------------------------------------------------------------------ recover programs
def recover_strategy():
    return st.fixed_dictionaries({"steps": S.any_recover_program(), "wrap": wrap})


def recover_execute(case, stats):
    steps = [tuple(s) for s in case["steps"]]
    w = case["wrap"]
    raw = P.enc_recover(steps, terminator=w["terminator"] or w["pad"] > 0 or bool(stale_of(w))) + b"\x00" * w["pad"] + stale_of(w)
    c = cfg(surround(case, [(11, PTR, raw)]))
    got = pretty(c, ["SETTING_C2_RECOVER"])
    eq([tuple(x) for x in got], steps, "recover:steps", "decoded recover program")
    stats.note(case, len(steps) >= 3 and any(n in ("append", "prepend") for n, _ in steps), classes=["len%d" % min(len(steps), 4)])


# ------------------------------------------------------------------------------------------ execute lists
def execute_strategy():
    return st.fixed_dictionaries({"entries": S.execute_list(), "name_pad": st.integers(1, 3), "wrap": wrap})


def execute_execute(case, stats):
    entries = [tuple(e) if isinstance(e, (list, tuple)) else e for e in case["entries"]]
    raw = P.enc_execute(entries, name_pad=case["name_pad"]) + b"\x00" * case["wrap"]["pad"] + stale_of(case["wrap"])
    c = cfg(surround(case, [(51, PTR, raw)]))
    got = pretty(c, ["SETTING_PROCINJ_EXECUTE"])
    want = []
    for e in entries:
        if isinstance(e, tuple):
            name, mod, fn, off = e
            s = f"{mod.decode()}!{fn.decode()}"
            if off:
                s += f"+0x{off:x}"
            want.append([f'{name.rstrip("_")} "{s}"'])
        elif e == "NtQueueApcThread-s":
            want.append(["NtQueueApcThread-s", "NtQueueApcThread_s"])
        else:
            want.append([e])
    ok = len(got) == len(want) and all(g in w for g, w in zip(got, want))
    check(ok, "execute:entries", f"decoded execute list {got!r}, expected (alternatives) {want!r}")
    stats.note(case, any(isinstance(e, tuple) for e in entries), classes=["with_offset" if any(isinstance(e, tuple) and e[3] for e in entries) else "no_offset"])


# ------------------------------------------------------------------------------------------ process-inject transform
def pit_strategy():
    return st.fixed_dictionaries({"setting": st.sampled_from([46, 47]), "prepend": S.arg_bytes, "append": S.arg_bytes, "pad": st.sampled_from([0, 8, 256]), "wrap": wrap})


def pit_execute(case, stats):
    raw = P.enc_procinj_transform(case["prepend"], case["append"]) + b"\x00" * case["pad"]
    c = cfg(surround(case, [(case["setting"], PTR, raw)]))
    got = pretty(c, ["SETTING_PROCINJ_TRANSFORM_X86" if case["setting"] == 46 else "SETTING_PROCINJ_TRANSFORM_X64"])
    got = [tuple(x) for x in got]
    want = {"prepend": case["prepend"], "append": case["append"]}
    check(sorted(k for k, _ in got) == ["append", "prepend"], "procinj_transform:labels", f"decoded {got!r}, expected prepend+append")
    for k, v in got:
        if case["prepend"] != case["append"]:
            eq(v, want[k], "procinj_transform:swapped", f"process-inject transform {k} bytes (encoded prepend={case['prepend']!r} append={case['append']!r})")
    stats.note(case, bool(case["prepend"]) != bool(case["append"]) or case["prepend"] != case["append"], classes=[f"setting{case['setting']}"])


# ------------------------------------------------------------------------------------------ sections / pivot
def misc_strategy():
    return st.fixed_dictionaries(
        {
            "pairs": S.section_table(),
            "pad_pairs": st.integers(0, 3),
            "frame": S.binary(0, 60),
            "frame_setting": st.sampled_from([57, 58]),
            "frame_pad": st.sampled_from([0, 16, 128]),
            "stub": st.binary(min_size=16, max_size=16),
            "spawnto": st.binary(min_size=16, max_size=16),
            "masked_wm": S.binary(0, 32),
            "bof": st.integers(0, 2),
            "dns_idle": S.u32,
            "wrap": wrap,
        }
    )


def misc_execute(case, stats):
    pairs = [tuple(p) for p in case["pairs"]]
    settings = [
        (42, PTR, P.enc_sections(pairs, pad_pairs=case["pad_pairs"])),
        (case["frame_setting"], PTR, P.enc_pivot_frame(case["frame"]) + b"\x00" * case["frame_pad"]),
        (53, PTR, case["stub"]),
        (14, PTR, case["spawnto"]),
        (74, PTR, case["masked_wm"]),
        (16, SHORT, struct.pack(">H", case["bof"])),
        (19, INT, struct.pack(">I", case["dns_idle"])),
    ]
    c = cfg(surround(case, settings))
    eq(pretty(c, ["SETTING_GARGLE_SECTIONS"]), [f"0x{a:x}-0x{b:x}" for a, b in pairs], "sections:pairs", "decoded section table")
    eq(pretty(c, ["SETTING_SMB_FRAME_HEADER" if case["frame_setting"] == 57 else "SETTING_TCP_FRAME_HEADER"]), case["frame"], "pivot:frame", "pivot frame header")
    eq(pretty(c, ["SETTING_PROCINJ_STUB"]), case["stub"].hex(), "hex:stub", "PROCINJ_STUB hex")
    eq(pretty(c, ["SETTING_SPAWNTO"]), case["spawnto"].hex(), "hex:spawnto", "SPAWNTO hex")
    eq(pretty(c, ["SETTING_MASKED_WATERMARK"]), case["masked_wm"].hex(), "hex:masked_watermark", "MASKED_WATERMARK hex")
    eq(pretty(c, ["SETTING_BOF_ALLOCATOR", "SETTING_KILLDATE_YEAR"]), ["VirtualAlloc", "MapViewOfFile", "HeapAlloc"][case["bof"]], "bof:name", "BOF allocator")
    ip = ".".join(str(b) for b in struct.pack(">I", case["dns_idle"]))
    eq(pretty(c, ["SETTING_DNS_IDLE"]), ip, "dns_idle:ip", "DNS idle address")
    stats.note(case, len(pairs) >= 2 or len(case["frame"]) > 0, classes=["pairs%d" % min(len(pairs), 3)])


# ------------------------------------------------------------------------------------------ strings, public key
STRING_SETTINGS = {
    8: "SETTING_DOMAINS", 54: "SETTING_HOST_HEADER", 26: "SETTING_C2_VERB_GET", 27: "SETTING_C2_VERB_POST", 15: "SETTING_PIPENAME",
    29: "SETTING_SPAWNTO_X86", 30: "SETTING_SPAWNTO_X64", 9: "SETTING_USERAGENT", 10: "SETTING_SUBMITURI",
    60: "SETTING_DNS_BEACON_BEACON", 61: "SETTING_DNS_BEACON_GET_A", 62: "SETTING_DNS_BEACON_GET_AAAA", 63: "SETTING_DNS_BEACON_GET_TXT",
    64: "SETTING_DNS_BEACON_PUT_METADATA", 65: "SETTING_DNS_BEACON_PUT_OUTPUT", 66: "SETTING_DNSRESOLVER",
}  # fmt: skip


def strings_strategy():
    nonnul = st.one_of(
        st.text(alphabet=S.printable, max_size=30).map(lambda s: s.encode()),
        st.binary(max_size=30).map(lambda b: b.replace(b"\x00", b"\x01")),
    )
    return st.fixed_dictionaries(
        {
            "index": st.sampled_from(sorted(STRING_SETTINGS)),
            "text": nonnul,
            "tail": st.one_of(st.just(b""), st.just(b"\x00"), S.binary(0, 12).map(lambda b: b"\x00" + b)),
            "der": st.binary(min_size=1, max_size=80).map(lambda b: b.rstrip(b"\x00") or b"\x30"),
            "der_pad": st.integers(0, 100),
            "wmhash": nonnul,
            "wrap": wrap,
        }
    )


def strings_execute(case, stats):
    idx = case["index"]
    text = case["text"]
    if idx == 9 and len(text) >= 0x80:
        text = text[:0x7F]
    raw = text + case["tail"]
    if idx == 9 and len(raw) == 0x80 and b"\x00" not in raw:
        raw = raw[:-1] + b"\x00"  # the over-long User-Agent edge belongs to C02
    der = case["der"]
    settings = [(idx, PTR, raw), (7, PTR, der + b"\x00" * case["der_pad"]), (36, PTR, case["wmhash"] + case["tail"])]
    c = cfg(surround(case, settings))
    got = pretty(c, [STRING_SETTINGS[idx]])
    latin = text.decode("latin-1")
    ascii_ignored = text.decode("ascii", "ignore")
    check(isinstance(got, str) and got in (latin, ascii_ignored), "string:value", f"setting {idx} raw={raw!r}: got {got!r}, expected {latin!r}")
    eq(pretty(c, ["SETTING_PUBKEY"]), hashlib.sha256(der).hexdigest(), "pubkey:digest", "public key digest")
    eq(lib(lambda: c.public_key), der, "pubkey:der", "public_key property")
    eq(pretty(c, ["SETTING_WATERMARKHASH"]), case["wmhash"], "watermarkhash:value", "WATERMARKHASH NUL-terminated bytes")
    stats.note(case, bool(case["tail"]) or any(b > 0x7F for b in text), classes=["high_byte" if any(b > 0x7F for b in text) else "ascii", "nul_tail" if case["tail"] else "no_tail"])


# ------------------------------------------------------------------------------------------ derived properties
_host = st.text(alphabet="abcdefghijklmnopqrstuvwxyz0123456789-.", min_size=1, max_size=16)
_uri = st.text(alphabet=S.token_chars + "/._-", max_size=12).map(lambda s: "/" + s)


def derived_strategy():
    return st.fixed_dictionaries(
        {
            "pairs": st.lists(st.tuples(_host, _uri), min_size=0, max_size=5),
            "proto": st.sampled_from([0, 1, 2, 4, 8, 16]),
            "port": S.u16,
            "killdate": st.one_of(
                st.just(0),
                st.tuples(st.integers(1000, 9999), st.integers(1, 12), st.integers(1, 31)).map(lambda t: t[0] * 10000 + t[1] * 100 + t[2]),
                st.just(99999999),
            ),
            "legacy": st.one_of(st.none(), st.tuples(st.integers(2000, 2100), st.integers(1, 12), st.integers(1, 31))),
            "watermark": S.u32,
            "crypto": st.sampled_from([0, 1]),
            "have": st.lists(st.booleans(), min_size=6, max_size=6),
            "submit": _uri,
            "sleep": S.u32,
            "jitter": st.integers(0, 99),
            "pad": st.sampled_from([0, 1, 64]),
        }
    )


def derived_execute(case, stats):
    from dissect.cobaltstrike.beacon import BeaconConfig

    have = case["have"]
    pairs = [tuple(p) for p in case["pairs"]]
    settings = []
    if have[0]:
        settings.append((2, SHORT, struct.pack(">H", case["port"])))
    settings.append((3, INT, struct.pack(">I", case["sleep"])))
    settings.append((5, SHORT, struct.pack(">H", case["jitter"])))
    domstr = ",".join(f"{d},{u}" for d, u in pairs).encode()
    if have[1]:
        settings.append((8, PTR, domstr + b"\x00" * (1 + case["pad"])))
    settings.append((10, PTR, case["submit"].encode() + b"\x00" * (1 + case["pad"])))
    legacy = case["legacy"] if not case["killdate"] else None
    if legacy:
        settings += [(16, SHORT, struct.pack(">H", legacy[0])), (17, SHORT, struct.pack(">H", legacy[1])), (18, SHORT, struct.pack(">H", legacy[2]))]
    if have[2]:
        settings.append((31, SHORT, struct.pack(">H", case["crypto"])))
    if have[3]:
        settings.append((37, INT, struct.pack(">I", case["watermark"])))
    if have[4] or case["killdate"]:
        settings.append((40, INT, struct.pack(">I", case["killdate"])))
    block = tlv.encode([(1, SHORT, struct.pack(">H", case["proto"]))] + settings)
    c = lib(BeaconConfig, block)
    g = lambda f: lib(f, what="derived property")
    eq(g(lambda: c.protocol), {0: "http", 1: "dns", 2: "smb", 4: "tcp", 8: "https", 16: "bind"}[case["proto"]], "derived:protocol", "protocol")
    eq(g(lambda: c.port), case["port"] if have[0] else None, "derived:port", "port")
    eq(g(lambda: c.sleeptime), case["sleep"], "derived:sleeptime", "sleeptime")
    eq(g(lambda: c.jitter), case["jitter"], "derived:jitter", "jitter")
    if have[1] and pairs:
        eq([tuple(p) for p in g(lambda: c.domain_uri_pairs)], pairs, "derived:domain_uri_pairs", "domain_uri_pairs")
        eq(g(lambda: c.domains), list(dict.fromkeys(d for d, _ in pairs)), "derived:domains", "domains")
        eq(g(lambda: c.uris), list(dict.fromkeys(u for _, u in pairs)), "derived:uris", "uris")
    elif not have[1]:
        eq(g(lambda: c.domain_uri_pairs), [], "derived:domain_uri_pairs_absent", "domain_uri_pairs without DOMAINS")
        eq(g(lambda: c.domains), [], "derived:domains_absent", "domains without DOMAINS")
    eq(g(lambda: c.submit_uri), case["submit"], "derived:submit_uri", "submit_uri")
    eq(g(lambda: c.watermark), case["watermark"] if have[3] else None, "derived:watermark", "watermark")
    eq(g(lambda: c.is_trial), bool(have[2] and case["crypto"] == 1), "derived:is_trial", "is_trial")
    kd = case["killdate"]
    if kd:
        want = f"{kd // 10000:02d}-{kd // 100 % 100:02d}-{kd % 100:02d}"
    elif legacy:
        want = f"{legacy[0]:02d}-{legacy[1]:02d}-{legacy[2]:02d}"
    else:
        want = None
    eq(g(lambda: c.killdate), want, "derived:killdate_legacy" if (legacy and not kd) else "derived:killdate", f"killdate (setting40={kd}, legacy={legacy})")
    stats.note(case, len(pairs) >= 2, classes=["legacy_killdate" if legacy else "killdate40" if kd else "no_killdate", "domains%d" % min(len(pairs), 3)])


# ------------------------------------------------------------------------------------------ BeaconGate
def _gate_names(flags):
    """Decode one 23-flag vector through the library (pure grouping function when available, else full config)."""
    from dissect.cobaltstrike import beacon

    raw = P.enc_beacon_gate(flags)
    fn = beacon.SETTING_TO_PRETTYFUNC.get(beacon.BeaconSetting.SETTING_BEACON_GATE)
    return lib(fn, raw, what="BeaconGate pretty function")


def check_gate(flags, names):
    enabled = {api for api, f in zip(P.BEACON_GATE_APIS, flags) if f}
    ctx = lambda: f"flags={''.join('1' if f else '0' for f in flags)} decoded={names!r}"
    check(isinstance(names, list) and all(isinstance(n, str) for n in names), "gate:type", ctx)
    check(len(set(names)) == len(names), "gate:duplicates", ctx)
    unknown = [n for n in names if n not in P.GATE_GROUPS and n not in P.BEACON_GATE_APIS]
    check(not unknown, "gate:unknown_name", ctx)
    check(P.gate_expand(names) == enabled, "gate:wrong_set", ctx)
    for n in names:
        if n in P.GATE_GROUPS:
            check(P.GATE_GROUPS[n] <= enabled, "gate:group_not_fully_set", ctx)
    covered = sum(len(P.GATE_GROUPS[n]) if n in P.GATE_GROUPS else 1 for n in names)
    check(covered == len(enabled), "gate:redundant_entry", ctx)
    if "All" in names:
        check(names == ["All"], "gate:all_plus_more", ctx)


def gate_strategy():
    return st.fixed_dictionaries({"flags": S.gate_flags, "wrap": wrap})


def gate_execute(case, stats):
    flags = list(case["flags"])
    c = cfg(surround(case, [(78, PTR, P.enc_beacon_gate(flags))]))
    names = pretty(c, ["SETTING_BEACON_GATE"])
    check_gate(flags, names)
    nset = sum(map(bool, flags))
    stats.note(case, 0 < nset < 23, classes=["bits_%s" % ("0" if nset == 0 else "23" if nset == 23 else "1-2" if nset <= 2 else "21-22" if nset >= 21 else "mid")])


def gate_enumerate(tier, shard, nshards):
    def gen():
        if tier == "thorough":
            for prefix in range(1 << 13):  # 8192 cases x 1024 vectors = 2^23
                yield {"mode": "prefix", "prefix": prefix}
        else:
            yield {"mode": "weight", "k": 0}
            yield {"mode": "weight", "k": 1}
            yield {"mode": "weight", "k": 22}
            yield {"mode": "weight", "k": 23}
            for first in range(23):
                yield {"mode": "pairs", "first": first, "invert": False}
                yield {"mode": "pairs", "first": first, "invert": True}

    return shard_iter(gen(), shard, nshards)


def gate_enum_execute(case, stats):
    vecs = []
    if case["mode"] == "prefix":
        p = case["prefix"]
        for low in range(1 << 10):
            v = (p << 10) | low
            vecs.append([(v >> i) & 1 for i in range(23)])
    elif case["mode"] == "weight":
        k = case["k"]
        if k in (0, 23):
            vecs.append([k == 23] * 23)
        else:
            for i in range(23):
                vecs.append([(j == i) == (k == 1) for j in range(23)])
    else:
        f = case["first"]
        for j in range(f + 1, 23):
            vecs.append([((i == f or i == j) != case["invert"]) for i in range(23)])
    for flags in vecs:
        check_gate(flags, _gate_names(flags))
    stats.count("vectors", len(vecs))
    stats.note(case, True, classes=[case["mode"]])


# ------------------------------------------------------------------------------------------ anchors
def anchors():
    """encode(frozen decoded sample value) must reproduce the samples' raw setting bytes.  Uses only reference code
    (harness/ref/anchor_samples.py), so a broken library cannot make the anchor fail."""
    from ..ref import anchor_samples as A

    def padded(raw, enc, what):
        assert raw.startswith(enc) and not raw[len(enc) :].strip(b"\x00"), what

    for name in A.plain_samples():
        raw = A.sample_raw_settings(name)
        dec = A.fixture()[name]["decoded"]
        for idx, build0 in ((12, "metadata"), (13, "id")):
            if idx in raw:
                padded(raw[idx], P.enc_transform([tuple(x) for x in dec[str(idx)]], build0=build0), (name, idx))
        if 11 in raw:
            padded(raw[11], P.enc_recover([tuple(x) for x in dec["11"]]), (name, 11))
        if 42 in raw:
            pairs = [tuple(int(x, 16) for x in p.split("-")) for p in dec["42"]]
            padded(raw[42], P.enc_sections(pairs), (name, 42))
        for idx in (57, 58):
            if idx in raw:
                padded(raw[idx], P.enc_pivot_frame(dec[str(idx)]), (name, idx))
        for idx in (46, 47):
            if idx in raw:
                d = dict(tuple(x) for x in dec[str(idx)])
                padded(raw[idx], P.enc_procinj_transform(d["prepend"], d["append"]), (name, idx))
        if 51 in raw:
            entries = []
            for e in dec["51"]:
                if '"' in e:
                    nm, arg = e.split(" ", 1)
                    mod, rest = arg.strip('"').split("!")
                    fn, _, off = rest.partition("+")
                    entries.append((nm + "_", mod.encode(), fn.encode(), int(off, 16) if off else 0))
                else:
                    entries.append(e.replace("_s", "-s"))
            enc = P.enc_execute(entries)
            padded(raw[51], enc, (name, 51))


def large_enumerate(tier, shard, nshards):
    def gen():
        for kind in ("transform", "recover", "execute", "sections", "procinj", "strings"):
            for size in (300, 1500):
                yield {"kind": kind, "size": size}

    return shard_iter(gen(), shard, nshards)


def large_execute(case, stats):
    """Long programs / big arguments (tens of KiB) - the same oracles as the generated cases."""
    n = case["size"]
    kind = case["kind"]
    w = {"terminator": True, "pad": 16, "before": True, "after": True}
    if kind == "transform":
        names = ["BASE64", "BASE64URL", "NETBIOS", "NETBIOSU", "MASK"]
        steps = [("BUILD", "metadata")] + [(names[i % 5], True) if i % 3 else ("PREPEND", bytes([i & 0xFF]) * (i % 40)) for i in range(n)] + [("APPEND", b"Z" * min(20 * n, 20000)), ("HEADER", b"Cookie")]
        transform_execute({"setting": 12, "steps": steps, "wrap": w}, stats)
    elif kind == "recover":
        names = ["base64", "netbios", "netbiosu", "base64url", "mask"]
        steps = [("print", True)] + [(names[i % 5], True) if i % 2 else (("append", "prepend")[i % 4 // 2], i * 100003 % 2**32) for i in range(n)]
        recover_execute({"steps": steps, "wrap": w}, stats)
    elif kind == "execute":
        entries = [("CreateThread_", b"mod%d.dll" % i, b"Func%d" % i, i * 37 % 65536) if i % 2 else "RtlCreateUserThread" for i in range(n)]
        execute_execute({"entries": entries, "name_pad": 1 + n % 2, "wrap": w}, stats)
    elif kind == "sections":
        pairs = [(i * 4096 + 1, i * 4096 + 4000) for i in range(n)]
        misc_execute({"pairs": pairs, "pad_pairs": 2, "frame": b"F" * min(n, 1000), "frame_setting": 58, "frame_pad": 16, "stub": bytes(16), "spawnto": bytes(16), "masked_wm": b"\x01" * 32, "bof": 1, "dns_idle": 0x7F000001, "wrap": w}, stats)
    elif kind == "procinj":
        pit_execute({"setting": 46, "prepend": b"\x90" * (10 * n), "append": b"\xcc" * (7 * n), "pad": 256, "wrap": w}, stats)
    else:
        strings_execute({"index": 8, "text": b"d.example.com,/u" * (n // 2), "tail": b"\x00" * 200, "der": b"\x30" + b"\x82" * 161, "der_pad": 94, "wmhash": b"hash" * 16, "wrap": w}, stats)


SUBS = [
    Sub("large_programs", large_execute, enumerate=large_enumerate, exhaustive=True),
    Sub("transform", transform_execute, strategy=transform_strategy, examples={"quick": 4800, "thorough": 96000}),
    Sub("recover", recover_execute, strategy=recover_strategy, examples={"quick": 3200, "thorough": 48000}),
    Sub("execute", execute_execute, strategy=execute_strategy, examples={"quick": 3200, "thorough": 48000}),
    Sub("procinj_transform", pit_execute, strategy=pit_strategy, examples={"quick": 1600, "thorough": 32000}),
    Sub("misc", misc_execute, strategy=misc_strategy, examples={"quick": 1600, "thorough": 32000}),
    Sub("strings", strings_execute, strategy=strings_strategy, examples={"quick": 3200, "thorough": 64000}),
    Sub("derived", derived_execute, strategy=derived_strategy, examples={"quick": 3200, "thorough": 64000}),
    Sub("beacon_gate", gate_execute, strategy=gate_strategy, examples={"quick": 3200, "thorough": 64000}),
    Sub("beacon_gate_enum", gate_enum_execute, enumerate=gate_enumerate, exhaustive=True),
]
