"""C04 - HTTP data transforms follow the Malleable C2 wire format and are invertible."""

import random

from hypothesis import strategies as st

from .. import strategies as S
from ..oracle import check, eq, lib
from ..ref import transform as T
from ..runner import Sub, Violation

PROPERTY = "C04"
LEVEL = "exploration"
RULE = (
    "Valid programs from a grammar: 1-3 BUILD blocks (metadata / id / output) each with 0-6 encoders (every ordering "
    "and repetition of base64, base64url, netbios, netbiosu, mask, prepend/append with arbitrary byte arguments incl. "
    "empty) and one termination (header / parameter / print / uri-append, distinct targets) plus static "
    "_header/_parameter/_hostheader steps; server output programs via the recover form. Payloads 0-80 bytes; initial "
    "request none / unrelated fields / non-empty base URI; random.seed drawn for mask. Oracles: recover(transform(d)) "
    "== d; reference decodes library messages; library decodes reference messages (own mask bytes, padded and "
    "unpadded base64url, arbitrary affix bytes); mask-free outputs equal the reference byte for byte. "
    "Non-trivial: >= 2 encoder steps, or an empty argument, or >= 2 build blocks. Distinct by content."
)
ASSUMPTIONS = [
    "reference codec harness/ref/transform.py (own base64/netbios/mask) anchored to the captured messages of tests/test_c2.py",
    "base64url: both padded and unpadded encodings must be accepted by recover; exact output comparison skips base64url padding",
    "uri-append round trips are checked relative to the base URI of the initial request",
]


def _mk_initial(ini, http):
    if ini is None:
        return None
    return http.HttpRequest(method=b"GET", uri=ini["uri"], params=dict(ini["params"]), headers=dict(ini["headers"]), body=b"")


initial_strategy = st.one_of(
    st.none(),
    st.fixed_dictionaries(
        {
            "uri": st.one_of(st.just(b""), st.sampled_from([b"/", b"/ca", b"/updates.rss", b"/a/b.php", b"/api/v1/", b"/x/"])),
            "params": st.dictionaries(st.sampled_from([b"zz_unrelated", b"q9"]), S.arg_bytes, max_size=2),
            "headers": st.dictionaries(st.sampled_from([b"X-Unrelated", b"Accept-Zz"]), S.arg_bytes, max_size=2),
        }
    ),
)


def client_strategy():
    kinds = st.sampled_from([("metadata",), ("id", "output"), ("output",), ("id",), ("metadata", "output"), ("metadata", "id", "output"), ("output", "id")])
    return st.fixed_dictionaries(
        {
            "steps": kinds.flatmap(lambda k: S.valid_client_program(kinds=k)),
            "fields": st.fixed_dictionaries({"metadata": S.binary(0, 80), "id": S.binary(0, 12), "output": S.binary(0, 80)}),
            "initial": initial_strategy,
            "rng": st.integers(0, 2**32 - 1),
            "masks": st.lists(st.binary(min_size=4, max_size=4), min_size=8, max_size=8),
            "pad_b64url": st.booleans(),
            # the initial request already holds (stale) values under the very names the program writes to
            "collide": st.booleans(),
            # uri-append where the base URI ends with "/" and the appended data starts with "/" (plain concatenation: the
            # request line carries "//")
            "slash_junction": st.booleans(),
        }
    )


def _msg_of(req):
    return {"uri": req.uri, "params": dict(req.params), "headers": dict(req.headers), "body": req.body}


def client_execute(case, stats):
    from dissect.cobaltstrike import c2

    steps = [tuple(s) for s in case["steps"]]
    fields = case["fields"]
    kinds = [a for n, a in steps if n == "BUILD"]
    ini = case["initial"]
    if case.get("slash_junction") and ini and any(n == "URI_APPEND" for n, _ in steps):
        at = next(i for i, (n, _) in enumerate(steps) if n == "URI_APPEND")
        steps = steps[:at] + [("PREPEND", b"/v")] + steps[at:]
        ini = dict(ini, uri=ini["uri"] if ini["uri"].endswith(b"/") else ini["uri"] + b"/")
    survivors = ini
    hk = [a for n, a in steps if n == "HEADER"] + [a.partition(b": ")[0] for n, a in steps if n in ("_HEADER", "_HOSTHEADER")]
    pk = [a for n, a in steps if n == "PARAMETER"] + [a.partition(b"=")[0] for n, a in steps if n == "_PARAMETER"]
    if ini:
        # names the program itself writes are overwritten, whether the clash was arranged ("collide") or is a coincidence
        survivors = {"uri": ini["uri"], "params": {k: v for k, v in ini["params"].items() if k not in pk}, "headers": {k: v for k, v in ini["headers"].items() if k not in hk}}
    if ini and case.get("collide"):
        ini = {"uri": ini["uri"], "params": {**{k: b"stale-" + k for k in pk}, **ini["params"]}, "headers": {**{k: b"stale-" + k for k in hk}, **ini["headers"]}}
        survivors = {"uri": ini["uri"], "params": {k: v for k, v in ini["params"].items() if k not in pk}, "headers": {k: v for k, v in ini["headers"].items() if k not in hk}}
    base_uri = ini["uri"] if ini else b""
    uri_append = any(n == "URI_APPEND" for n, _ in steps)
    has_mask = any(n == "MASK" for n, _ in steps)
    has_b64url = any(n == "BASE64URL" for n, _ in steps)

    def new_transform():
        return lib(c2.HttpDataTransform, list(steps), what="HttpDataTransform()")

    c2data = c2.C2Data(output=fields["output"], metadata=fields["metadata"], id=fields["id"])
    state = random.getstate()
    random.seed(case["rng"])
    try:
        req = lib(new_transform().transform, c2data, _mk_initial(ini, c2), what="transform")
    finally:
        random.setstate(state)
    check(isinstance(req, c2.HttpRequest), "transform:type", f"transform returned {type(req)}")
    msg = _msg_of(req)
    ctx = lambda: f"steps={steps!r} fields={ {k: fields[k] for k in kinds} !r} initial={ini!r} message={msg!r}"[:1500]

    # (b) the reference decodes the library's message
    try:
        ref_dec = T.client_decode(steps, msg, base_uri=base_uri)
    except Exception as e:
        raise Violation("transform:reference_cannot_decode", f"reference decoder failed on library output ({e!r}); {ctx()}")
    for k in kinds:
        check(ref_dec[k] == fields[k], "transform:wire_format", lambda: f"reference decode of library message: {k} = {ref_dec[k]!r}, sent {fields[k]!r}; {ctx()}")

    # (d) exact placement for deterministic programs
    if not has_mask:
        ref_msg = T.client_encode(steps, fields, initial=ini, pad_b64url=True)
        if has_b64url:
            strip = lambda m: {"uri": m["uri"].replace(b"=", b""), "params": {k: v.replace(b"=", b"") for k, v in m["params"].items()}, "headers": {k: v.replace(b"=", b"") for k, v in m["headers"].items()}, "body": m["body"].replace(b"=", b"")}
            same = strip(ref_msg) == strip(msg)
        else:
            same = ref_msg == msg
        if not same:
            statics_only = {k: v for k, v in ref_msg.items()}
            key = "transform:static_parameter" if any(n == "_PARAMETER" for n, _ in steps) and ref_msg["params"] != msg["params"] else "transform:placement"
            raise Violation(key, f"library message differs from reference: lib={msg!r} ref={ref_msg!r}; steps={steps!r}"[:1500])
    # initial fields survive
    if ini:
        for k, v in survivors["headers"].items():
            check(msg["headers"].get(k) == v, "transform:initial_header_lost", ctx)
        for k, v in survivors["params"].items():
            check(msg["params"].get(k) == v, "transform:initial_param_lost", ctx)
        check(msg["uri"].startswith(base_uri), "transform:initial_uri_lost", ctx)

    # (a) library round trip
    def recovered(message, what, base):
        r = c2.HttpRequest(method=b"GET", uri=message["uri"], params=dict(message["params"]), headers=dict(message["headers"]), body=message["body"])
        try:
            d = lib(new_transform().recover, r, what=f"recover({what})")
        except Violation as v:
            if uri_append and base:
                # same root cause: the decoders are fed <base URI>+data
                raise Violation("recover:uri_append_with_base_uri", f"{what}: uri-append with base URI {base!r}: {v.message[:300]}; steps={steps!r}"[:1200])
            raise
        for k in kinds:
            got = getattr(d, k)
            if got != fields[k]:
                if uri_append and base:
                    raise Violation("recover:uri_append_with_base_uri", f"{what}: uri-append with base URI {base!r}: {k} = {got!r}, sent {fields[k]!r}; steps={steps!r}"[:1200])
                empties = [n for n, a in steps if n in ("APPEND",) and a == b""]
                key = "recover:empty_append" if empties else "recover:roundtrip"
                raise Violation(key, f"{what}: {k} = {got!r}, sent {fields[k]!r}; steps={steps!r} message={message!r}"[:1500])
        others = {"metadata", "id", "output"} - set(kinds)
        for k in others:
            check(getattr(d, k) is None, "recover:phantom_field", f"{what}: field {k} not built by the program but recovered as {getattr(d, k)!r}")
        check(isinstance(d, c2.ClientC2Data), "recover:type", f"recover(request) returned {type(d)}")

    recovered(msg, "library message", base_uri)
    # one transform object used repeatedly must behave like a fresh one each time (no state carried between calls)
    if not (uri_append and base_uri):
        t = new_transform()
        other = c2.C2Data(output=fields["output"][::-1] + b"!", metadata=b"M" + fields["metadata"], id=fields["id"] + b"7")
        random.seed(case["rng"] ^ 1)
        lib(t.transform, other, _mk_initial(ini, c2), what="transform (first use)")
        state2 = random.getstate()
        random.seed(case["rng"])
        try:
            req_again = lib(t.transform, c2data, _mk_initial(ini, c2), what="transform (second use of the same object)")
        finally:
            random.setstate(state)
        if _msg_of(req_again) != msg:
            raise Violation("transform:depends_on_history", f"second transform() on the same object differs from a fresh one: {_msg_of(req_again)!r} vs {msg!r}; steps={steps!r}"[:1500])
        r = c2.HttpRequest(method=b"GET", uri=msg["uri"], params=dict(msg["params"]), headers=dict(msg["headers"]), body=msg["body"])
        d1 = lib(t.recover, r, what="recover (same object)")
        d2 = lib(t.recover, r, what="recover (same object, again)")
        check(tuple(d1) == tuple(d2) and all(getattr(d1, k) == fields[k] for k in kinds), "recover:depends_on_history", f"recover() on a re-used transform object: {tuple(d1)!r} / {tuple(d2)!r}")
    # (c) library decodes reference messages (own masks, optional unpadded base64url)
    ref_msg2 = T.client_encode(steps, fields, initial=ini, masks=case["masks"], pad_b64url=case["pad_b64url"])
    recovered(ref_msg2, "reference message" + ("" if case["pad_b64url"] else " (unpadded base64url)"), base_uri)

    nenc = sum(1 for n, _ in steps if n in T.ENCODERS)
    stats.note(
        case,
        nenc >= 2 or any(a == b"" for _, a in steps) or len(kinds) >= 2,
        classes=[
            "blocks%d" % len(kinds),
            "mask" if has_mask else "no_mask",
            "uri_append" if uri_append else "no_uri_append",
            "base_uri" if base_uri else "no_base_uri",
            "initial_collides" if ini is not survivors else "initial_disjoint",
            "static" if any(n in T.STATICS for n, _ in steps) else "no_static",
            "empty_arg" if any(a == b"" for _, a in steps) else "no_empty_arg",
        ],
    )


def server_strategy():
    return st.fixed_dictionaries(
        {
            "rsteps": S.valid_recover_program(),
            "output": S.binary(0, 80),
            "rng": st.integers(0, 2**32 - 1),
            "masks": st.lists(st.binary(min_size=4, max_size=4), min_size=8, max_size=8),
            "fill": st.lists(st.binary(min_size=1, max_size=5), min_size=8, max_size=8),
            "pad_b64url": st.booleans(),
            # i-th prepend/append step: None = length only (as parsed from a beacon config), bytes = the literal itself
            "lits": st.one_of(st.just([None] * 8), st.lists(st.one_of(st.none(), S.arg_bytes), min_size=8, max_size=8)),
        }
    )


def server_execute(case, stats):
    from dissect.cobaltstrike import c2

    rsteps = [tuple(s) for s in case["rsteps"]]
    out = case["output"]
    has_mask = any(n == "mask" for n, _ in rsteps)
    # recover-order programs may carry the prepend/append literal instead of only its length
    lits = list(case.get("lits") or [None] * 8)
    lib_steps, xfill, k = [], [], 0
    for i, (n, a) in enumerate(rsteps):
        lit = None
        if n in ("append", "prepend"):
            lit = lits[k] if k < len(lits) else None
            k += 1
            if lit is not None:
                rsteps[i] = (n, len(lit))
            xfill.insert(0, lit if lit is not None else b"X" * rsteps[i][1])
        lib_steps.append((n, lit) if lit is not None else rsteps[i])
    with_literal = lib_steps != rsteps

    def new_transform():
        if len(out) % 3 == 2:
            # the same program handed over in transform (profile) order, ``reverse`` left at its default
            return lib(c2.HttpDataTransform, list(lib_steps[::-1]), build="output", what="HttpDataTransform(steps in transform order, build='output')")
        if len(out) % 2:  # keyword and positional form of (steps, reverse, build)
            return lib(c2.HttpDataTransform, list(lib_steps), True, "output", what="HttpDataTransform(steps, True, 'output')")
        return lib(c2.HttpDataTransform, list(lib_steps), reverse=True, build="output", what="HttpDataTransform(reverse)")

    state = random.getstate()
    random.seed(case["rng"])
    try:
        req = lib(new_transform().transform, c2.C2Data(output=out), what="transform(server)")
    finally:
        random.setstate(state)
    body = req.body
    ctx = lambda: f"rsteps={lib_steps!r} output={out!r} body={body!r}"[:1200]
    try:
        back = T.server_decode(rsteps, body)
    except Exception as e:
        raise Violation("server:reference_cannot_decode", f"{e!r}; {ctx()}")
    check(back == out, "server:wire_format", lambda: f"reference decode of library body gives {back!r}; {ctx()}")
    if not has_mask and not any(n == "base64url" for n, _ in rsteps):
        want = T.server_encode(rsteps, out, fill=list(xfill))
        check(body == want, "server:placement", lambda: f"expected body {want!r}; {ctx()}")

    def recovered(b, what):
        resp = c2.HttpResponse(status=200, headers={}, reason=b"OK", body=b)
        d = lib(new_transform().recover, resp, what=f"recover({what})")
        check(isinstance(d, c2.ServerC2Data), "server:type", f"recover(response) returned {type(d)}")
        if d.output != out:
            zero = any(n == "append" and a == 0 for n, a in rsteps)
            raise Violation("recover:empty_append" if zero else "server:roundtrip", f"{what}: output = {d.output!r}, sent {out!r}; rsteps={rsteps!r} body={b!r}"[:1200])
        check(d.metadata is None and d.id is None, "server:phantom_field", f"{what}: metadata/id recovered from a response")

    recovered(body, "library body")
    recovered(T.server_encode(rsteps, out, fill=case["fill"], masks=case["masks"], pad_b64url=case["pad_b64url"]), "reference body")
    stats.note(case, len(rsteps) >= 3 or any(a == 0 and n in ("append", "prepend") for n, a in rsteps), classes=["mask" if has_mask else "no_mask", "steps%d" % min(len(rsteps), 4), "literal_affix" if with_literal else "length_only_affix"])


def anchors():
    """The reference codec must decode the three captured messages of tests/test_c2.py (values frozen here)."""
    # captured GET: Cookie header carries base64(metadata)
    cookie = b"KN9zfIq31DBBdLtF4JUjmrhm0lRKkC/I/zAiJ+Xxjz787h9yh35cRjEnXJAwQcWP4chXobXT/E5YrZjgreeGTrORnj//A5iZw2TClEnt++gLMyMHwgjsnvg9czGx6Ekpz0L1uEfkVoo4MpQ0/kJk9myZagRrPrFWdE9U7BwCzlE="
    steps = [("BUILD", "metadata"), ("BASE64", True), ("HEADER", b"Cookie")]
    dec = T.client_decode(steps, {"uri": b"/ca", "params": {}, "headers": {b"Cookie": cookie}, "body": b""})
    assert len(dec["metadata"]) == 128, len(dec["metadata"])
    assert T.b64encode(dec["metadata"]) == cookie
    assert T.b64decode(T.b64encode(bytes(range(256)))) == bytes(range(256))
    assert T.netbios_encode(b"\x12\xab", 0x41) == b"BCKL" and T.netbios_decode(b"bckl", 0x61) == b"\x12\xab"
    assert T.mask_decode(T.mask_encode(b"hello world", b"\x01\x02\x03\x04")) == b"hello world"


def large_enumerate(tier, shard, nshards):
    from ..runner import shard_iter

    def gen():
        for size in (65535, 65536, 65537, 200003, 1048576):
            for prog in range(4):
                yield {"size": size, "prog": prog}

    return shard_iter(gen(), shard, nshards)


LARGE_PROGRAMS = [
    [("BUILD", "id"), ("NETBIOS", True), ("PARAMETER", b"id"), ("BUILD", "output"), ("MASK", True), ("BASE64", True), ("PREPEND", b"data="), ("PRINT", True)],
    [("BUILD", "metadata"), ("BASE64URL", True), ("NETBIOSU", True), ("APPEND", b"-tail"), ("HEADER", b"Cookie"), ("_HEADER", b"Accept: */*")],
    [("BUILD", "output"), ("MASK", True), ("MASK", True), ("NETBIOS", True), ("BASE64", True), ("URI_APPEND", True), ("_PARAMETER", b"v=1")],
    [("BUILD", "output"), ("PRINT", True), ("BUILD", "id"), ("BASE64", True), ("BASE64", True), ("HEADER", b"X-Id")],
]


def large_execute(case, stats):
    """Payloads around and beyond 64 KiB through fixed multi-step programs (client and server direction)."""
    import random as _r

    from ..runner import Stats

    rnd = _r.Random(case["size"] + case["prog"])
    blob = rnd.randbytes(case["size"])
    client_execute({"steps": LARGE_PROGRAMS[case["prog"]], "fields": {"metadata": blob, "id": b"12345", "output": blob[::-1]}, "initial": None, "rng": case["size"], "masks": [b"\x01\x02\x03\x04"] * 8, "pad_b64url": bool(case["prog"] % 2)}, Stats())
    server_execute({"rsteps": [("print", True), ("append", 1522), ("prepend", 84), ("prepend", 3931), ("base64url", True), ("mask", True)], "output": blob, "rng": 3, "masks": [b"\xaa\xbb\xcc\xdd"] * 8, "fill": [b"ab"] * 8, "pad_b64url": True}, Stats())
    stats.note(case, True, classes=["large_payload"])


SUBS = [
    Sub("large_payloads", large_execute, enumerate=large_enumerate, exhaustive=True),
    Sub("client_programs", client_execute, strategy=client_strategy, examples={"quick": 6400, "thorough": 160000}),
    Sub("server_programs", server_execute, strategy=server_strategy, examples={"quick": 4800, "thorough": 96000}),
]
