"""C05 - packet encryption round-trips and is authenticated before decryption (fault enumeration)."""

import struct

from hypothesis import strategies as st

from .. import strategies as S
from ..oracle import Raised, check, eq, lib
from ..ref import crypto as R
from ..runner import Sub, Violation

PROPERTY = "C05"
LEVEL = "fault_enumeration"
RULE = (
    "Generated packets: plaintext lengths 0..80 (every residue mod 16), random 16-byte AES/HMAC keys and IVs. Each "
    "case compares encrypt_packet with a reference AES-CBC(pad 'A')/HMAC-SHA256[:16] and then ENUMERATES its faults: "
    "every single-bit flip of the ciphertext and of the signature, every proper prefix of each, every single-bit "
    "flip of the HMAC key, hmac_key None/empty - each must raise ValueError with verify=True and must not reach the "
    "AES layer (decrypt_data wrapped with a call recorder). Framing: streams of 1-6 packets through "
    "EncryptedPacket.dumps / ClientC2Data / ServerC2Data. Non-trivial: a case whose full fault set (>= 256 faults) "
    "was enumerated; distinct by (length, keys, plaintext)."
)
ASSUMPTIONS = [
    "single faults only (one flipped bit or one truncation per trial)",
    "reference CBC is built from pycryptodome's AES block primitive; HMAC from the standard library",
]


def packet_strategy():
    return st.fixed_dictionaries(
        {
            "plain": st.one_of(st.integers(0, 80).flatmap(lambda n: st.binary(min_size=n, max_size=n)), st.sampled_from([b"", b"A" * 16, b"A" * 15, b"\x00" * 32])),
            "aes": st.binary(min_size=16, max_size=16),
            "hmac": st.binary(min_size=16, max_size=16),
            "iv": st.one_of(st.just(b"abcdefghijklmnop"), st.binary(min_size=16, max_size=16)),
            "default_iv": st.booleans(),
        }
    )


class _Recorder:
    """Wraps c2.decrypt_data for the duration of a case to prove the AES layer is not reached on rejected input."""

    def __init__(self, c2):
        self.c2 = c2
        self.calls = 0

    def __enter__(self):
        self.orig = self.c2.decrypt_data

        def wrapped(*a, **kw):
            self.calls += 1
            return self.orig(*a, **kw)

        self.c2.decrypt_data = wrapped
        return self

    def __exit__(self, *exc):
        self.c2.decrypt_data = self.orig


def packet_execute(case, stats):
    from dissect.cobaltstrike import c2

    plain, aes, hk = case["plain"], case["aes"], case["hmac"]
    iv = b"abcdefghijklmnop" if case["default_iv"] else case["iv"]
    kw = {} if case["default_iv"] else {"iv": iv}
    pkt = lib(c2.encrypt_packet, plain, aes, hk, what="encrypt_packet", **kw)
    want_ct = R.cbc_encrypt(R.pad_a(plain), aes, iv)
    eq(bytes(pkt.ciphertext), want_ct, "encrypt:ciphertext", f"ciphertext for {len(plain)}-byte plaintext")
    eq(bytes(pkt.signature), R.sign(want_ct, hk), "encrypt:signature", "signature = HMAC-SHA256(ciphertext)[:16]")
    npad = 16 - len(plain) % 16
    check(1 <= npad <= 16 and len(want_ct) == len(plain) + npad, "harness:pad", "pad arithmetic")
    got = lib(c2.decrypt_packet, pkt, aes, hk, verify=True, what="decrypt_packet", **kw)
    eq(bytes(got), plain + b"A" * npad, "decrypt:roundtrip", f"decrypt(encrypt(p)) for len {len(plain)} (padding {npad})")
    eq(bytes(lib(c2.decrypt_packet, pkt, aes, None, verify=False, **kw)), plain + b"A" * npad, "decrypt:noverify", "verify=False without hmac key")
    eq(bytes(lib(c2.pad, plain)), plain + b"A" * npad, "pad:value", "pad()")
    # the session keys as one object (BeaconKeys = aes_key, hmac_key, iv), unpacked positionally or by name
    keys = lib(c2.BeaconKeys, aes_key=aes, hmac_key=hk, iv=iv, what="BeaconKeys()")
    eq(tuple(bytes(k) for k in keys), (aes, hk, iv), "keys:fields", "BeaconKeys field order (aes_key, hmac_key, iv)")
    p2 = lib(c2.encrypt_packet, plain, *keys, what="encrypt_packet(plain, *keys)")
    eq((bytes(p2.ciphertext), bytes(p2.signature)), (want_ct, R.sign(want_ct, hk)), "encrypt:positional_keys", "encrypt_packet(plain, *BeaconKeys)")
    eq(bytes(lib(c2.decrypt_packet, pkt, *keys, what="decrypt_packet(pkt, *keys)")), plain + b"A" * npad, "decrypt:positional_keys", f"decrypt_packet(pkt, *BeaconKeys) with iv {iv!r}")
    eq(bytes(lib(c2.decrypt_packet, pkt, **keys._asdict(), what="decrypt_packet(pkt, **keys)")), plain + b"A" * npad, "decrypt:keyword_keys", "decrypt_packet(pkt, **BeaconKeys._asdict())")
    # session keys made by the two constructors that derive them (from the 16 random bytes / from a metadata packet) carry
    # the configured IV as well, given positionally or by name, and packets under them are CBC under that IV
    import hashlib

    from dissect.cobaltstrike.c_c2 import BeaconMetadata

    d = hashlib.sha256(aes).digest()
    md = BeaconMetadata(magic=0xBEEF, size=51, aes_rand=aes, info=b"")
    made = [
        ("from_aes_rand", (lambda: c2.BeaconKeys.from_aes_rand(aes, **kw)) if len(plain) % 2 else (lambda: c2.BeaconKeys.from_aes_rand(aes, *([iv] if kw else [])))),
        ("from_beacon_metadata", (lambda: c2.BeaconKeys.from_beacon_metadata(md, **kw)) if len(plain) % 2 else (lambda: c2.BeaconKeys.from_beacon_metadata(md, *([iv] if kw else [])))),
    ]
    for name, mk in made:
        dk = lib(mk, what=f"BeaconKeys.{name}()")
        eq(tuple(bytes(k) for k in dk), (d[:16], d[16:], iv), "keys:derived_fields", f"BeaconKeys.{name}(..., iv={'default' if not kw else iv!r})")
        p3 = lib(c2.encrypt_packet, plain, **dk._asdict(), what=f"encrypt_packet(plain, **{name} keys)")
        want3 = R.cbc_encrypt(R.pad_a(plain), d[:16], iv)
        eq(bytes(p3.ciphertext), want3, "encrypt:derived_keys", f"ciphertext under BeaconKeys.{name}(..., iv) for a {len(plain)}-byte plaintext")
        eq(bytes(lib(c2.decrypt_packet, p3, **dk._asdict(), what=f"decrypt_packet(pkt, **{name} keys)")), plain + b"A" * npad, "decrypt:derived_keys", f"decrypt under BeaconKeys.{name}(..., iv)")

    # ---- fault enumeration
    ct, sig = bytes(pkt.ciphertext), bytes(pkt.signature)
    faults = []
    for i in range(len(ct) * 8):
        b = bytearray(ct)
        b[i // 8] ^= 1 << (i % 8)
        faults.append(("ct_bit", i, bytes(b), sig, hk))
    for i in range(len(sig) * 8):
        b = bytearray(sig)
        b[i // 8] ^= 1 << (i % 8)
        faults.append(("sig_bit", i, ct, bytes(b), hk))
    for n in range(len(ct)):
        faults.append(("ct_trunc", n, ct[:n], sig, hk))
    for n in range(len(sig)):
        faults.append(("sig_trunc", n, ct, sig[:n], hk))
    for i in range(128):
        b = bytearray(hk)
        b[i // 8] ^= 1 << (i % 8)
        faults.append(("key_bit", i, ct, sig, bytes(b)))
    faults.append(("key_none", 0, ct, sig, None))
    faults.append(("key_empty", 0, ct, sig, b""))
    faults.append(("swap", 0, sig, ct[:16], hk))
    with _Recorder(c2) as rec:
        for kind, i, fct, fsig, fkey in faults:
            before = rec.calls
            r = lib(c2.decrypt_packet, c2.EncryptedPacket(fct, fsig), aes, fkey, verify=True, allow=(ValueError,), what=f"decrypt_packet[{kind}]", **kw)
            if not isinstance(r, Raised):
                raise Violation(f"auth:{kind}_accepted", f"fault {kind}#{i} accepted: returned {bytes(r)[:32]!r} (plaintext len {len(plain)})")
            if rec.calls != before:
                raise Violation("auth:decrypted_before_verify", f"fault {kind}#{i}: AES layer reached although the packet was rejected")
        # the EncryptedPacket method itself
        r = lib(c2.EncryptedPacket(ct, sig).raise_for_signature, hk, allow=(ValueError,))
        check(not isinstance(r, Raised), "auth:valid_rejected", "raise_for_signature rejects a valid packet")
    stats.count("faults", len(faults))
    stats.note({"len": len(plain), "aes": aes, "hmac": hk, "plain": plain}, len(faults) >= 256, classes=["len_mod16_%d" % (len(plain) % 16), "default_iv" if case["default_iv"] else "custom_iv"])


# byte sequences that text-oriented code tends to treat specially; packets are binary and may start or end with any of them
EDGES = [b"\r\n", b"\n", b"\r", b" ", b"\t", b"\x00", b"\x00\x00", b"\n\n", b"\r\n\r\n", b"==", b"=", b"\xff\xff", b"AAAA", b"0", b'"', b"%20", b"+", b"/"]


def _edged(blob_strategy, min_len):
    """Mostly arbitrary bytes; sometimes with an EDGES sequence as prefix and/or suffix (length preserved)."""

    def put(t):
        blob, pre, suf = t
        if pre is not None and len(blob) >= max(min_len, len(pre)):
            blob = pre + blob[len(pre) :]
        if suf is not None and len(blob) >= max(min_len, len(suf)):
            blob = blob[: len(blob) - len(suf)] + suf
        return blob

    opt = st.one_of(st.none(), st.none(), st.sampled_from(EDGES))
    return st.tuples(blob_strategy, opt, opt).map(put)


def framing_strategy():
    return st.fixed_dictionaries(
        {
            "packets": st.lists(st.tuples(_edged(S.binary(0, 40), 0), _edged(st.binary(min_size=16, max_size=16), 16)), min_size=1, max_size=6),
            "real": st.booleans(),
            "aes": st.binary(min_size=16, max_size=16),
            "hmac": st.binary(min_size=16, max_size=16),
        }
    )


def framing_execute(case, stats):
    from dissect.cobaltstrike import c2

    pkts = []
    for plain, sig in case["packets"]:
        if case["real"]:
            p = lib(c2.encrypt_packet, plain, case["aes"], case["hmac"])
            pkts.append((bytes(p.ciphertext), bytes(p.signature)))
        else:
            pkts.append((plain, sig))  # framing must not depend on the content being a real ciphertext
    stream = b""
    for ct, sig in pkts:
        d = lib(c2.EncryptedPacket(ct, sig).dumps)
        eq(d, struct.pack(">I", len(ct) + 16) + ct + sig, "framing:dumps", "EncryptedPacket.dumps layout")
        stream += d
    got = lib(lambda: list(c2.ClientC2Data(output=stream).iter_encrypted_packets()), what="ClientC2Data.iter_encrypted_packets")
    eq([(bytes(g.ciphertext), bytes(g.signature)) for g in got], pkts, "framing:client_split", f"{len(pkts)} framed packets")
    ct, sig = pkts[0]
    got = lib(lambda: list(c2.ServerC2Data(output=ct + sig).iter_encrypted_packets()), what="ServerC2Data.iter_encrypted_packets")
    eq([(bytes(g.ciphertext), bytes(g.signature)) for g in got], [(ct, sig)], "framing:server_split", "trailing-signature framing")
    for empty in (None, b""):
        eq(lib(lambda: list(c2.ClientC2Data(output=empty).iter_encrypted_packets())), [], "framing:client_empty", "empty client output")
        eq(lib(lambda: list(c2.ServerC2Data(output=empty).iter_encrypted_packets())), [], "framing:server_empty", "empty server output")
    if case["real"]:
        for g, (plain, _s) in zip(c2.ClientC2Data(output=stream).iter_encrypted_packets(), case["packets"]):
            out = lib(c2.decrypt_packet, g, case["aes"], case["hmac"])
            check(bytes(out).startswith(plain) and set(bytes(out)[len(plain) :]) <= {0x41}, "framing:decrypt", "framed packet decrypts to its plaintext")
    edge = any(ct.startswith(e) or sig.endswith(e) or ct.endswith(e) or sig.startswith(e) for ct, sig in pkts[:1] for e in EDGES)
    stats.note(case, len(pkts) >= 2, classes=["packets%d" % min(len(pkts), 4), "real" if case["real"] else "synthetic", "first_packet_edge_bytes" if edge else "first_packet_plain"])


def anchors():
    # reference CBC against the vector of tests/test_c2.py::test_encrypt_packet
    from Crypto.Cipher import AES

    key, iv = b"0123456789abcdef", b"abcdefghijklmnop"
    ct = R.cbc_encrypt(R.pad_a(b"hello world"), key, iv)
    assert AES.new(key, AES.MODE_CBC, iv=iv).decrypt(ct) == b"hello world" + b"A" * 5
    assert R.cbc_decrypt(ct, key, iv) == b"hello world" + b"A" * 5


def large_enumerate(tier, shard, nshards):
    from ..runner import shard_iter

    return shard_iter(({"size": n} for n in (65519, 65520, 65535, 65536, 65537, 100000, 131072, 1048576 - 16, 1048576, 1048576 + 5, 2097152, 3145728)), shard, nshards)


def large_execute(case, stats):
    """Large plaintexts: round trip vs the reference, a sample of faults, framing of several large packets."""
    import random as _r

    from dissect.cobaltstrike import c2

    rnd = _r.Random(case["size"])
    plain, aes, hk = rnd.randbytes(case["size"]), rnd.randbytes(16), rnd.randbytes(16)
    pkt = lib(c2.encrypt_packet, plain, aes, hk)
    want_ct = R.cbc_encrypt(R.pad_a(plain), aes, b"abcdefghijklmnop")
    eq(bytes(pkt.ciphertext) == want_ct, True, "encrypt:ciphertext", f"ciphertext of a {case['size']}-byte plaintext")
    eq(bytes(pkt.signature), R.sign(want_ct, hk), "encrypt:signature", "signature of a large packet")
    npad = 16 - case["size"] % 16
    eq(bytes(lib(c2.decrypt_packet, pkt, aes, hk)) == plain + b"A" * npad, True, "decrypt:roundtrip", f"round trip of a {case['size']}-byte plaintext")
    ct, sig = bytes(pkt.ciphertext), bytes(pkt.signature)
    for pos in (0, 1, len(ct) // 2, 65535, 65536, len(ct) - 1):
        if pos < len(ct):
            bad = ct[:pos] + bytes([ct[pos] ^ 0x40]) + ct[pos + 1 :]
            r = lib(c2.decrypt_packet, c2.EncryptedPacket(bad, sig), aes, hk, allow=(ValueError,))
            check(isinstance(r, Raised), "auth:ct_bit_accepted", f"bit flip at ciphertext offset {pos} of a large packet accepted")
    for cut in (len(ct) - 16, 65536, 16):
        if cut >= len(ct):
            continue
        r = lib(c2.decrypt_packet, c2.EncryptedPacket(ct[:cut], sig), aes, hk, allow=(ValueError,))
        check(isinstance(r, Raised), "auth:ct_trunc_accepted", f"large ciphertext truncated to {cut} bytes accepted")
    stream = pkt.dumps() + lib(c2.encrypt_packet, b"small", aes, hk).dumps() + pkt.dumps()
    got = lib(lambda: list(c2.ClientC2Data(output=stream).iter_encrypted_packets()))
    eq([len(g.ciphertext) for g in got], [len(ct), 16, len(ct)], "framing:client_split", "framing of large packets")
    stats.note(case, True, classes=["large_packet"])


def edge_enumerate(tier, shard, nshards):
    from ..runner import shard_iter

    two = [e for e in EDGES if len(e) <= 2]
    return shard_iter(({"where": w, "edge": e, "n": n} for w in ("sig_end", "sig_start", "ct_start", "ct_end") for e in two for n in (0, 1)), shard, nshards)


def edge_execute(case, stats):
    """Real packets (found by search with the reference crypto) whose signature or ciphertext starts/ends with a
    byte sequence that text-oriented code treats specially: both framings return them intact and they decrypt."""
    import hashlib

    from dissect.cobaltstrike import c2

    e, where = case["edge"], case["where"]
    seedb = hashlib.sha256(repr((where, e, case["n"])).encode()).digest()
    aes, hk, iv = seedb[:16], seedb[16:32], b"abcdefghijklmnop"
    found = None
    for i in range(1 << 20):
        plain = b"task-%d" % i + b"." * (case["n"] * 13)
        ct = R.cbc_encrypt(R.pad_a(plain), aes, iv)
        sig = R.sign(ct, hk)
        hit = {"sig_end": sig.endswith(e), "sig_start": sig.startswith(e), "ct_start": ct.startswith(e), "ct_end": ct.endswith(e)}[where]
        if hit:
            found = (plain, ct, sig)
            break
    if found is None:
        stats.discard()
        return
    plain, ct, sig = found
    pkt = lib(c2.encrypt_packet, plain, aes, hk)
    eq((bytes(pkt.ciphertext), bytes(pkt.signature)), (ct, sig), "encrypt:ciphertext", f"packet for {plain!r}")
    ctx = f"packet with {where} == {e!r} (plaintext {plain!r}, aes {aes.hex()}, hmac {hk.hex()})"
    got = lib(lambda: list(c2.ServerC2Data(output=ct + sig).iter_encrypted_packets()), what="ServerC2Data.iter_encrypted_packets")
    eq([(bytes(g.ciphertext), bytes(g.signature)) for g in got], [(ct, sig)], "framing:server_split", "trailing-signature framing of " + ctx)
    out = lib(c2.decrypt_packet, got[0], aes, hk)
    eq(bytes(out), R.pad_a(plain), "framing:decrypt", "task data framing then decrypt of " + ctx)
    other = lib(c2.encrypt_packet, b"second", aes, hk)
    stream = pkt.dumps() + other.dumps() + pkt.dumps()
    got = lib(lambda: list(c2.ClientC2Data(output=stream).iter_encrypted_packets()), what="ClientC2Data.iter_encrypted_packets")
    eq([(bytes(g.ciphertext), bytes(g.signature)) for g in got], [(ct, sig), (bytes(other.ciphertext), bytes(other.signature)), (ct, sig)], "framing:client_split", "length-prefixed framing of " + ctx)
    for g in (got[0], got[2]):
        eq(bytes(lib(c2.decrypt_packet, g, aes, hk)), R.pad_a(plain), "framing:decrypt", "callback framing then decrypt of " + ctx)
    stats.note(case, True, classes=[where, "edge_len%d" % len(e)])


SUBS = [
    Sub("edge_byte_packets", edge_execute, enumerate=edge_enumerate, exhaustive=True),
    Sub("large_packets", large_execute, enumerate=large_enumerate, exhaustive=True),
    Sub("packets_with_faults", packet_execute, strategy=packet_strategy, examples={"quick": 4800, "thorough": 48000}),
    Sub("framing", framing_execute, strategy=framing_strategy, examples={"quick": 3200, "thorough": 64000}),
]
