"""C06 - beacon metadata survives RSA transport; session keys derive from it."""

import hashlib
import struct

from hypothesis import strategies as st

from .. import keys
from .. import strategies as S
from ..oracle import Raised, check, eq, lib
from ..runner import Sub, Violation

PROPERTY = "C06"
LEVEL = "exploration"
RULE = (
    "Metadata with every field at full width (boundary values 0, 1, max and random), info length 0 up to the PKCS#1 "
    "v1.5 limit (58 bytes for RSA-1024, 186 for RSA-2048) and limit+1.. (must raise ValueError), fixed key fixtures; "
    "negative blobs: random modulus-sized strings, wrong lengths, blobs encrypted for another key, valid PKCS#1 "
    "plaintexts with wrong magic or shorter than the fixed header; all-random 16-byte seeds for key derivation. "
    "Non-trivial: info length within 2 of the limit, a boundary field value, or a negative blob. Distinct by content."
)
ASSUMPTIONS = ["pycryptodome is trusted for RSA itself", "fixed RSA fixtures fixtures/rsa_*.pem"]

FIELDS = [("ansi_cp", 16), ("oem_cp", 16), ("bid", 32), ("pid", 32), ("port", 16), ("flag", 8), ("ver_major", 8), ("ver_minor", 8), ("ver_build", 16), ("ptr_x64", 32), ("ptr_gmh", 32), ("ptr_gpa", 32), ("ip", 32)]
LIMIT = {"rsa_1024_a": 58, "rsa_2048": 186}


def uint(bits):
    m = (1 << bits) - 1
    return st.one_of(st.sampled_from([0, 1, m, m - 1, 1 << (bits - 1)]), st.integers(0, m))


def roundtrip_strategy():
    def mk(key):
        lim = LIMIT[key]
        return st.fixed_dictionaries(
            {
                "key": st.just(key),
                "fields": st.fixed_dictionaries({n: uint(b) for n, b in FIELDS}),
                "aes_rand": st.binary(min_size=16, max_size=16),
                "infolen": st.one_of(st.sampled_from([0, 1, lim - 2, lim - 1, lim, lim + 1, lim + 2, lim + 50]), st.integers(0, lim)),
                "infobyte": st.binary(min_size=1, max_size=8),
                # the stale size the caller leaves in the field: any value, incl. ones whose bytes also occur elsewhere in the
                # serialised metadata (the magic 00 00 BE EF in front of it, other fields) and the already-consistent one
                "size_field": st.one_of(S.u32, st.sampled_from([0x0000BEEF, 0x00BEEF00, 0xBEEFBEEF, 0xEFEFEFEF, 0xBEEF0000, 0x00000000, 51, 52, 0x33000000, 0x00003300])),
            }
        )

    return st.sampled_from(["rsa_1024_a", "rsa_1024_a", "rsa_2048"]).flatmap(mk)


def roundtrip_execute(case, stats):
    from dissect.cobaltstrike import c2
    from dissect.cobaltstrike.c_c2 import BeaconMetadata

    priv = keys.rsa(case["key"])
    lim = LIMIT[case["key"]]
    info = (case["infobyte"] * 200)[: case["infolen"]]
    f = case["fields"]
    md = lib(BeaconMetadata, magic=0xBEEF, size=case["size_field"], aes_rand=case["aes_rand"], info=info, what="BeaconMetadata()", **f)
    blob = lib(c2.encrypt_metadata, md, priv.public_key(), allow=(ValueError,), what="encrypt_metadata")
    if case["infolen"] > lim:
        check(isinstance(blob, Raised), "encrypt:too_long_accepted", f"info of {case['infolen']} bytes accepted for {case['key']} (limit {lim})")
        stats.note(case, True, classes=["over_limit"])
        return
    check(not isinstance(blob, Raised), "encrypt:fits_but_rejected", f"info of {case['infolen']} bytes (limit {lim}) rejected: {blob!r}")
    eq(len(blob), priv.size_in_bytes(), "encrypt:blob_length", "ciphertext length")
    back = lib(c2.decrypt_metadata, blob, priv, what="decrypt_metadata")
    eq(back.magic, 0xBEEF, "roundtrip:magic", "magic")
    eq(back.size, 51 + len(info), "roundtrip:size", "size field = length - 8")
    eq(bytes(back.aes_rand), case["aes_rand"], "roundtrip:aes_rand", "aes_rand")
    for n, _ in FIELDS:
        eq(int(getattr(back, n)), f[n], f"roundtrip:field", f"field {n}")
    eq(bytes(back.info), info, "roundtrip:info", "info")
    # the same blob under another private key of the same size must be rejected - also right after a successful
    # decryption with the matching key (no state may leak between calls)
    if case["key"] == "rsa_1024_a":
        r2 = lib(c2.decrypt_metadata, blob, keys.rsa("rsa_1024_b"), allow=(ValueError,), what="decrypt_metadata(blob, other key)")
        check(isinstance(r2, Raised), "decrypt:other_key_after_success", f"a blob encrypted for key A decrypted under key B after a successful decryption with key A: {r2!r}")
        back2 = lib(c2.decrypt_metadata, blob, priv, what="decrypt_metadata (again)")
        eq(int(back2.bid), f["bid"], "roundtrip:repeat", "second decryption with the matching key")
    # independent check of the plaintext layout: decrypt with pycryptodome directly
    from Crypto.Cipher import PKCS1_v1_5

    pt = PKCS1_v1_5.new(priv).decrypt(blob, None)
    want = struct.pack(">II16sHHIIHBBBHIIII", 0xBEEF, 51 + len(info), case["aes_rand"], f["ansi_cp"], f["oem_cp"], f["bid"], f["pid"], f["port"], f["flag"], f["ver_major"], f["ver_minor"], f["ver_build"], f["ptr_x64"], f["ptr_gmh"], f["ptr_gpa"], f["ip"]) + info
    eq(pt, want, "encrypt:layout", "PKCS#1 plaintext layout")
    # session keys
    a, h = lib(c2.derive_aes_hmac_keys, case["aes_rand"])
    d = hashlib.sha256(case["aes_rand"]).digest()
    eq((bytes(a), bytes(h)), (d[:16], d[16:]), "derive:split", "derive_aes_hmac_keys")
    bk = lib(c2.BeaconKeys.from_beacon_metadata, back)
    eq((bk.aes_key, bk.hmac_key, bk.iv), (d[:16], d[16:], b"abcdefghijklmnop"), "derive:from_metadata", "BeaconKeys.from_beacon_metadata")
    bk2 = lib(c2.BeaconKeys.from_aes_rand, case["aes_rand"], iv=b"0123456789abcdef")
    eq((bk2.aes_key, bk2.hmac_key, bk2.iv), (d[:16], d[16:], b"0123456789abcdef"), "derive:from_aes_rand", "BeaconKeys.from_aes_rand")
    bits = dict(FIELDS)
    boundary = any(f[n] in (0, (1 << bits[n]) - 1) for n in f)
    stats.note(case, abs(case["infolen"] - lim) <= 2 or boundary, classes=[case["key"], "near_limit" if abs(case["infolen"] - lim) <= 2 else "below_limit"])


def negative_strategy():
    return st.fixed_dictionaries(
        {
            "key": st.sampled_from(["rsa_1024_a", "rsa_2048"]),
            "kind": st.sampled_from(["random", "wrong_length", "other_key", "wrong_magic", "short_plain", "zeros", "too_big"]),
            "data": st.binary(min_size=300, max_size=300),
            "length": st.integers(0, 300),
            # near misses of the magic: every single-bit flip, wrong halves, byte swaps - and arbitrary values
            "magic": st.one_of(
                st.integers(0, 31).map(lambda i: 0xBEEF ^ (1 << i)),
                st.sampled_from([0xBEEF0000, 0xBEEFBEEF, 0xEFBE, 0xEFBE0000, 0xDEADBEEF, 0xFFFFBEEF, 0x8000BEEF, 0xBEEE, 0xBEF0, 0xBE, 0xEF, 0xBEEF00]),
                st.integers(1, 0xFFFF).map(lambda h: (h << 16) | 0xBEEF),
                S.u32,
            ).filter(lambda m: m != 0xBEEF),
            "short": st.integers(0, 58),
            # wrong-magic plaintexts of any shape that still parses: size field consistent with the length or not
            "wm_size": st.one_of(st.just(51), st.integers(0, 120), st.sampled_from([0, 50, 52, 0xFFFFFFFF])),
            "wm_len": st.one_of(st.just(51), st.integers(51, 100)),
        }
    )


def negative_execute(case, stats):
    from Crypto.Cipher import PKCS1_v1_5

    from dissect.cobaltstrike import c2

    priv = keys.rsa(case["key"])
    k = priv.size_in_bytes()
    kind = case["kind"]
    if kind == "random":
        blob = case["data"][:k]
    elif kind == "zeros":
        blob = b"\x00" * k
    elif kind == "too_big":
        blob = b"\xff" * k
    elif kind == "wrong_length":
        n = case["length"] if case["length"] != k else k - 1
        blob = case["data"][:n]
    elif kind == "other_key":
        other = keys.rsa("rsa_1024_b")
        pt = struct.pack(">II", 0xBEEF, 51) + case["data"][:51]
        blob = PKCS1_v1_5.new(other.public_key()).encrypt(pt)
        blob = blob.rjust(k, b"\x00")[:k] if case["key"] == "rsa_2048" else blob
    elif kind == "wrong_magic":
        pt = struct.pack(">II", case["magic"], case.get("wm_size", 51)) + case["data"][: case.get("wm_len", 51)]
        blob = PKCS1_v1_5.new(priv.public_key()).encrypt(pt)
    else:  # short_plain: valid PKCS#1 plaintext shorter than the fixed 59-byte header
        pt = (struct.pack(">II", 0xBEEF, 51) + case["data"][:51])[: case["short"]]
        blob = PKCS1_v1_5.new(priv.public_key()).encrypt(pt)
    r = lib(c2.decrypt_metadata, blob, priv, allow=(ValueError,), what=f"decrypt_metadata[{kind}]")
    if not isinstance(r, Raised):
        # a random blob may, with negligible probability, decrypt to something with the magic; otherwise a defect
        raise Violation(f"decrypt:{kind}_accepted", f"{kind} blob accepted: {r!r}")
    stats.note(case, True, classes=[kind, case["key"]])


SUBS = [
    Sub("roundtrip", roundtrip_execute, strategy=roundtrip_strategy, examples={"quick": 2400, "thorough": 48000}),
    Sub("negative_blobs", negative_execute, strategy=negative_strategy, examples={"quick": 1600, "thorough": 32000}),
]
