"""C07 - end-to-end: traffic produced by a beacon is decoded to the packets sent."""

import random
import struct

from hypothesis import strategies as st
from hypothesis.stateful import RuleBasedStateMachine, initialize, precondition, rule

from .. import cfgbuild, keys, peer
from .. import strategies as S
from ..oracle import Raised, check, eq, lib
from ..ref import httpwire as W
from ..runner import HarnessError, Sub, Violation
from .c19 import patched_client_module

PROPERTY = "C07"
LEVEL = "exploration"
RULE = (
    "Stateful: a RuleBasedStateMachine draws a well-formed HTTP beacon configuration (reference-encoded: valid "
    "get/post/recover programs with printable placements, 1-3 URIs, verbs GET/POST/PUT/custom, static headers and "
    "parameters) and a history of <= 10 steps: checkin (library HttpBeaconClient.get_task, optionally with a queued "
    "task), callback (library send_callback), multi_callback (reference beacon, 2-4 concatenated packets), "
    "unrelated_request, duplicate (a byte-identical retransmission of an earlier message). The peer is a recording loopback HTTP server driven by the reference codec. After every step "
    "a fresh C2Http per key variant (RSA private key only / aes_rand / AES+HMAC keys) is fed all raw messages so far, "
    "and a persistent C2Http per variant is fed only the new messages; both "
    "must yield exactly the model's packets in order; get_task() must return the queued task; unrelated requests "
    "must raise ValueError. Non-trivial session: >= 1 task, >= 1 callback and >= 3 messages. Distinct by history."
)
ASSUMPTIONS = [
    "GET and POST routes are distinguishable: no configured URI is a prefix of another",
    "uses 127.0.0.1 sockets and the repository's httpx; a bind failure is a harness error (exit 2)",
    "responses to POST requests are not fed to the decoder (a beacon does not process them)",
]

class CaptureLogger:
    """Stands in for the client's logger: keeps what the client would have logged (it swallows transport errors)."""

    def __init__(self):
        self.records = []

    def _log(self, level, msg, *args):
        try:
            self.records.append((level, msg % args if args else msg))
        except Exception:
            self.records.append((level, repr((msg, args))))

    def error(self, msg, *a, **k):
        self._log("error", msg, *a)

    def exception(self, msg, *a, **k):
        self._log("exception", str(msg), *a)

    def warning(self, msg, *a, **k):
        self._log("warning", msg, *a)

    def info(self, msg, *a, **k):
        pass

    debug = info


TRANSIENT = ("ConnectError", "ConnectTimeout", "ReadTimeout", "ReadError", "PoolTimeout", "WriteError", "WriteTimeout")

COMMANDS = [1, 2, 3, 4, 5, 8, 10, 11, 27, 32, 53, 95, 100]
CALLBACKS = [0, 1, 2, 3, 13, 17, 22, 30, 32]


class Session:
    def __init__(self, init):
        from dissect.cobaltstrike.beacon import BeaconConfig
        from dissect.cobaltstrike.client import HttpBeaconClient

        self.init = init
        self.cfg = cfgbuild.normalize_cfg(init["cfg"])
        self.priv = keys.rsa(self.cfg["key"])
        self.block = cfgbuild.block_from_cfg(self.cfg, keys.der_public(self.cfg["key"]))
        self.srv = peer.server()
        self.ts = peer.TeamServer(self.cfg, self.priv)
        self.ts.masks = [bytes(m) for m in init["masks"]]
        self.srv.handler = self.ts.handle
        self.srv.errors.clear()
        self.rb = peer.RefBeacon(self.cfg)
        self.bconfig = lib(BeaconConfig, self.block, what="BeaconConfig(block)")
        self.messages = []  # (raw, {variant: expected list | 'ValueError'})
        self.ntasks = self.ncallbacks = 0
        self.epoch = 1600000000
        with patched_client_module():
            self.cl = HttpBeaconClient()
            if init.get("prior_session"):
                # the client object has been used before: an earlier session of the same beacon id (another host identity)
                # that checked in once with a peer of its own. The session under test must not carry anything over from it.
                old_ts = peer.TeamServer(self.cfg, self.priv)
                old_ts.masks = [bytes(m) for m in init["masks"]]
                self.srv.handler = old_ts.handle
                lib(self.cl.run, self.bconfig, dry_run=True, domain="127.0.0.1", port=self.srv.port, scheme="http", beacon_id=init["beacon_id"], pid=(init["pid"] % 65535) + 1, computer="OLD-" + init["computer"][:8], user="old." + init["user"][:8], process="old.exe", internal_ip="10.9.9.9", arch="x86", what="HttpBeaconClient.run(dry_run=True) [earlier session]")
                lib(self.cl.get_task, what="HttpBeaconClient.get_task() [earlier session]")
                self.srv.errors.clear()
                self.srv.handler = self.ts.handle
            lib(
                self.cl.run,
                self.bconfig,
                dry_run=True,
                domain="127.0.0.1",
                port=self.srv.port,
                scheme="http",
                beacon_id=init["beacon_id"],
                pid=init["pid"],
                computer=init["computer"],
                user=init["user"],
                process="proc.exe",
                internal_ip="10.20.30.40",
                arch="x64",
                what="HttpBeaconClient.run(dry_run=True)",
            )
        # a session whose two ends are configured with an IV of their own: the client through its decoder's key object
        # (BeaconKeys carries the IV), the capture is then decoded with that key object handed to iter_recover_http
        self.iv = bytes(init["iv"]) if init.get("iv") else None
        if self.iv:
            self.ts.iv = self.iv
            self.cl.c2http.beacon_keys = self.cl.c2http.beacon_keys._replace(iv=self.iv)
        self.counter = 5000
        self.caplog = CaptureLogger()
        self.cl.logger = self.caplog

    # ------------------------------------------------------------------ helpers
    def _check_server(self, what):
        if self.srv.errors:
            err = list(self.srv.errors)
            self.srv.errors.clear()
            raise Violation("client:request_not_decodable_by_reference", f"{what}: the reference team server could not decode the library client's request: {err}; cfg={self.cfg}"[:1800])

    def _no_request(self, what, n):
        errs = [m for lvl, m in self.caplog.records if lvl in ("error", "exception")]
        if any(t in m for m in errs for t in TRANSIENT):
            raise HarnessError(f"transient transport failure on the loopback socket during {what}: {errs[-1][:300]}")
        raise Violation("client:no_request", f"{what} produced {n} requests; client log: {errs[-3:]}; cfg={self.cfg}"[:1500])

    def _md_tuple_from_ref(self, md):
        return ("metadata", md["bid"], md["pid"], md["aes_rand"], md["info"], md["flag"], md["ip"], md["port"], md["ansi_cp"], md["oem_cp"], md["ver_major"], md["ver_minor"], md["ver_build"])

    @staticmethod
    def packet_tuple(p):
        name = type(p).__name__
        if name == "BeaconMetadata":
            return ("metadata", int(p.bid), int(p.pid), bytes(p.aes_rand), bytes(p.info), int(p.flag), int(p.ip), int(p.port), int(p.ansi_cp), int(p.oem_cp), int(p.ver_major), int(p.ver_minor), int(p.ver_build))
        if name == "TaskPacket":
            return ("task", int(p.epoch), int(getattr(p.command, "value", p.command)), bytes(p.data))
        if name == "CallbackPacket":
            return ("callback", int(p.counter), int(getattr(p.callback, "value", p.callback)), bytes(p.data))
        return ("unknown", repr(p))

    # ------------------------------------------------------------------ operations
    def checkin(self, task):
        if task is not None:
            self.epoch += 1
            if len(task[1]) % 2 == 0 and len(task[1]) <= 1024:
                # every other task: let the peer pick the next epoch for which the encrypted task ends in CR / LF / ...
                self.ts.queue.append((self.epoch, task[0], task[1], b"\r\n \t\x00"))
            else:
                self.ts.queue.append((self.epoch, task[0], task[1]))
        n0 = len(self.ts.log)
        with patched_client_module():
            got = lib(self.cl.get_task, what="HttpBeaconClient.get_task()")
        self._check_server("checkin")
        if len(self.ts.log) != n0 + 1:
            self._no_request("get_task()", len(self.ts.log) - n0)
        if task is not None and getattr(self.ts, "last_task", None):
            self.epoch = self.ts.last_task[0]  # the epoch the peer actually used
        kind, raw_req, raw_resp, decoded = self.ts.log[-1]
        if kind != "get":
            raise Violation("client:wrong_route", f"check-in request was routed as {kind!r} by the reference: {raw_req[:200]!r}")
        md = decoded["metadata"]
        eq(md["bid"], self.cl.beacon_id, "client:metadata_bid", "beacon id in the metadata on the wire")
        eq(md["pid"], self.init["pid"], "client:metadata_pid", "pid in the metadata on the wire")
        want_info = f"{self.init['computer']}\t{self.init['user']}\tproc.exe".encode()[:51]
        eq(md["info"], want_info, "client:metadata_info", "info in the metadata on the wire")
        if task is None:
            check(got is None, "client:phantom_task", f"get_task() returned {got!r} although nothing was queued")
        else:
            check(got is not None, "client:task_lost", f"get_task() returned None, queued task {task!r}; response={raw_resp[-120:]!r}")
            eq(self.packet_tuple(got), ("task", self.epoch, task[0], task[1]), "client:task_content", "task returned by get_task()")
            self.ntasks += 1
        mdt = self._md_tuple_from_ref(md)
        self.messages.append((raw_req, {"rsa": [mdt], "aes_rand": [], "keys": []}))
        exp = [("task", self.epoch, task[0], task[1])] if task is not None else []
        self.messages.append((raw_resp, {"rsa": exp, "aes_rand": exp, "keys": exp}))

    def callback(self, cb, data):
        n0 = len(self.ts.log)
        with patched_client_module():
            from dissect.cobaltstrike.c_c2 import BeaconCallback

            lib(self.cl.send_callback, BeaconCallback(cb), data, what="HttpBeaconClient.send_callback()")
        self._check_server("callback")
        if len(self.ts.log) != n0 + 1:
            self._no_request("send_callback()", len(self.ts.log) - n0)
        kind, raw_req, _resp, decoded = self.ts.log[-1]
        if kind != "post":
            raise Violation("client:wrong_route", f"callback request was routed as {kind!r} by the reference: {raw_req[:200]!r}")
        eq(decoded["id"], str(self.cl.beacon_id).encode(), "client:callback_id", "beacon id in the callback request")
        cbs = decoded["callbacks"]
        eq([(c["callback"], c["data"]) for c in cbs], [(cb, data)], "client:callback_content", "callback decoded by the reference team server")
        exp = [("callback", cbs[0]["counter"], cb, data)]
        self.messages.append((raw_req, {"rsa": exp, "aes_rand": exp, "keys": exp}))
        self.ncallbacks += 1

    def multi_callback(self, items, masks):
        frames = b""
        exp = []
        for cb, data in items:
            self.counter += 1
            frames += peer.enc_callback(self.counter, cb, data, *self.ts.keys, self.ts.iv)
            exp.append(("callback", self.counter, cb, data))
        raw = self.rb.callback_request(self.cl.beacon_id, frames, masks=[bytes(m) for m in masks])
        resp = peer.send_raw(self.srv.port, raw)
        if self.srv.errors or not resp.startswith(b"HTTP/1.1 200"):
            err = list(self.srv.errors)
            self.srv.errors.clear()
            raise HarnessError(f"reference team server rejected the reference beacon's request: {err} {resp[:60]!r}")
        self.messages.append((raw, {"rsa": exp, "aes_rand": exp, "keys": exp}))
        self.ncallbacks += len(items)

    def unrelated(self, which):
        c = self.cfg
        if which == 0:
            raw = W.request(b"HEAD", c["get_uris"][0].encode(), [], [(b"Host", b"127.0.0.1")], b"")
        elif which == 1:
            raw = W.request(c["verb_get"].encode(), b"/zz-unrelated/path", [(b"q", b"1")], [(b"Host", b"127.0.0.1"), (b"Cookie", b"abc")], b"")
        elif which == 2:
            raw = W.request(c["verb_post"].encode(), b"/zz-other", [], [(b"Host", b"127.0.0.1")], b"data")
        else:
            raw = W.request(b"DELETE", c["submit_uri"].encode(), [(b"id", b"1")], [(b"Host", b"127.0.0.1")], b"x")
        # only truly unrelated when verbs differ from the configured routes
        method = raw.split(b" ", 1)[0]
        path = raw.split(b" ")[1].split(b"?")[0]
        kind, _ = self.ts.route(method, path)
        if kind is None:
            self.messages.append((raw, {"rsa": "ValueError", "aes_rand": "ValueError", "keys": "ValueError"}))

    # ------------------------------------------------------------------ oracle
    def check_decoders(self):
        from dissect.cobaltstrike import c2

        if not self.ts.keys:
            return
        aes, hk = self.ts.keys
        aes_rand = None
        for _raw, exp in self.messages:
            if exp["rsa"] != "ValueError" and exp["rsa"] and exp["rsa"][0][0] == "metadata":
                aes_rand = exp["rsa"][0][3]
                break
        variants = {
            "rsa": dict(rsa_private_key=self.priv),
            "aes_rand": dict(aes_rand=aes_rand),
            "keys": dict(aes_key=aes, hmac_key=hk),
        }
        rkw = {}
        if self.iv:
            # only a key object can say which IV the session uses
            variants = {"keys": dict(aes_key=aes, hmac_key=hk)}
            rkw = {"keys": c2.BeaconKeys(aes_key=aes, hmac_key=hk, iv=self.iv)}
        # (1) a persistent decoder per key variant, fed incrementally (the way a capture is processed) ...
        if not hasattr(self, "persistent"):
            self.persistent = {}
            self.fed = 0
        for vname, kw in variants.items():
            if vname not in self.persistent:
                self.persistent[vname] = lib(c2.C2Http, self.bconfig, what=f"C2Http({vname})", **kw)
            dec = self.persistent[vname]
            for i in range(self.fed, len(self.messages)):
                raw, exp = self.messages[i]
                want = exp[vname]
                r = lib(lambda: list(dec.iter_recover_http(raw, **rkw)), allow=(ValueError,), what=f"persistent C2Http[{vname}].iter_recover_http(message {i})")
                if want == "ValueError":
                    check(isinstance(r, Raised), "decode:unrelated_not_rejected", f"[{vname}, persistent] unrelated request {raw[:80]!r} decoded to {r!r}")
                elif isinstance(r, Raised) or [self.packet_tuple(p) for p in r] != want:
                    raise Violation("decode:persistent_decoder", f"[{vname}] persistent decoder, message {i}: got {r if isinstance(r, Raised) else [self.packet_tuple(p) for p in r]!r}, sent {want!r}; raw={raw[:200]!r}; cfg={self.cfg}"[:1800])
        # (1b) ... a persistent decoder whose caller stops iterating as soon as it has the packets of a message
        if not hasattr(self, "lazy"):
            self.lazy = {}
        for vname, kw in variants.items():
            if vname not in self.lazy:
                self.lazy[vname] = lib(c2.C2Http, self.bconfig, what=f"C2Http({vname})", **kw)
            dec = self.lazy[vname]
            for i in range(self.fed, len(self.messages)):
                raw, exp = self.messages[i]
                want = exp[vname]
                if want == "ValueError" or not want:
                    continue

                def take(n=len(want)):
                    it = dec.iter_recover_http(raw, **rkw)
                    return [next(it) for _ in range(n)]

                r = lib(take, allow=(ValueError,), what=f"lazy C2Http[{vname}] (message {i})")
                if isinstance(r, Raised) or [self.packet_tuple(p) for p in r] != want:
                    raise Violation("decode:lazy_consumer", f"[{vname}] decoder whose caller takes exactly the packets of each message: message {i}: got {r if isinstance(r, Raised) else [self.packet_tuple(p) for p in r]!r}, sent {want!r}; cfg={self.cfg}"[:1800])
        self.fed = len(self.messages)
        # (2) ... and a fresh decoder per key variant fed the whole session so far
        for vname, kw in variants.items():
            dec = lib(c2.C2Http, self.bconfig, what=f"C2Http({vname})", **kw)
            for i, (raw, exp) in enumerate(self.messages):
                want = exp[vname]
                r = lib(lambda: list(dec.iter_recover_http(raw, **rkw)), allow=(ValueError,), what=f"C2Http[{vname}].iter_recover_http(message {i})")
                if want == "ValueError":
                    check(isinstance(r, Raised), "decode:unrelated_not_rejected", f"[{vname}] unrelated request {raw[:80]!r} decoded to {r!r}")
                    continue
                if isinstance(r, Raised):
                    uri_append = any(n == "URI_APPEND" for n, _ in self.cfg["get_steps"] + self.cfg["post_steps"])
                    key = "decode:uri_append_session" if uri_append and raw.split(b" ")[0] in (self.cfg["verb_get"].encode(), self.cfg["verb_post"].encode()) and b"HTTP/1.1 200" not in raw[:20] else "decode:rejected"
                    raise Violation(key, f"[{vname}] message {i} rejected with {r.exc!r}; raw={raw[:300]!r}; cfg={self.cfg}"[:1800])
                got = [self.packet_tuple(p) for p in r]
                if got != want:
                    uri_append = any(n == "URI_APPEND" for n, _ in self.cfg["get_steps"] + self.cfg["post_steps"])
                    key = "decode:uri_append_session" if uri_append and not raw.startswith(b"HTTP/") else "decode:wrong_packets"
                    raise Violation(key, f"[{vname}] message {i}: decoded {got!r}, sent {want!r}; raw={raw[:300]!r}; cfg={self.cfg}"[:1800])


def expand(data, limit=None):
    """b'\\x00BIG' + 2 bytes stands for a deterministic large blob (around / beyond 64 KiB)."""
    if isinstance(data, (bytes, bytearray)) and data[:4] == b"\x00BIG" and len(data) >= 6:
        n = (65500, 65536, 70001, 131080)[data[4] % 4]
        if limit is not None:
            n = min(n, limit)
        return random.Random(data[5]).randbytes(n)
    return data


def output_in_body(cfg):
    """True when the http-post output block terminates with print (large callbacks then travel in the body)."""
    cur = None
    for n, a in cfg["post_steps"]:
        if n == "BUILD":
            cur = a
        elif cur == "output" and n in ("PRINT", "HEADER", "PARAMETER", "URI_APPEND"):
            return n == "PRINT"
    return False


def placement_budget(cfg):
    """Largest callback plaintext that still gives a URI / header / parameter of at most ~20 KB after the output block's
    encoders (every netbios step doubles the size; five of them turn 1500 bytes into a 64 KB URL, which no HTTP client
    sends)."""
    factor, cur = 1.0, None
    for n, a in cfg["post_steps"]:
        if n == "BUILD":
            cur = a
        elif cur == "output":
            if n in ("NETBIOS", "NETBIOSU"):
                factor *= 2
            elif n in ("BASE64", "BASE64URL"):
                factor *= 1.34
    return max(16, int(20000 / factor) - 64)


def apply_op(sess, op):
    op = list(op)
    big_ok = output_in_body(sess.cfg)
    small = placement_budget(sess.cfg)
    # at most one large blob per session (every message is re-decoded by fresh decoders after every step)
    budget = [None if getattr(sess, "big_used", 0) < 1 else 900]

    def ex(d, limit=None):
        lim = limit if budget[0] is None else min(limit or budget[0], budget[0])
        out = expand(d, lim)
        if len(out) > 60000:
            sess.big_used = getattr(sess, "big_used", 0) + 1
            budget[0] = 900
        return out

    if op[0] == "checkin" and op[1] is not None:
        op[1] = (op[1][0], ex(op[1][1]))
    elif op[0] == "callback":
        op[2] = ex(op[2], None if big_ok else min(1500, small))
    elif op[0] == "multi":
        op[1] = [(c, ex(d, None if big_ok else min(700, small // max(1, len(op[1]))))) for c, d in op[1]]
    kind = op[0]
    if kind == "checkin":
        sess.checkin(tuple(op[1]) if op[1] is not None else None)
    elif kind == "callback":
        sess.callback(op[1], op[2])
    elif kind == "multi":
        sess.multi_callback([tuple(x) for x in op[1]], op[2])
    elif kind == "unrelated":
        sess.unrelated(op[1])
    elif kind == "duplicate":
        # a retransmitted / duplicated message (byte-identical) decodes to the same packets again
        if sess.messages:
            sess.messages.append(sess.messages[op[1] % len(sess.messages)])
    sess.check_decoders()


def finish(sess, case, stats):
    stats.note(
        case,
        sess.ntasks >= 1 and sess.ncallbacks >= 1 and len(sess.messages) >= 3,
        classes=[
            "messages%d" % min(len(sess.messages) // 3 * 3, 12),
            "uri_append" if any(n == "URI_APPEND" for n, _ in sess.cfg["get_steps"] + sess.cfg["post_steps"]) else "no_uri_append",
            "verbs_%s_%s" % (sess.cfg["verb_get"], sess.cfg["verb_post"]),
            "tasks" if sess.ntasks else "no_tasks",
            "reused_client_object" if sess.init.get("prior_session") else "fresh_client_object",
            "session_iv_custom" if sess.iv else "session_iv_default",
            "large_packet" if any(len(r) > 60000 for r, _ in sess.messages) else "small_packets",
        ],
    )


init_strategy = st.fixed_dictionaries(
    {
        "cfg": S.http_beacon_config(printable=True),
        "beacon_id": st.one_of(st.sampled_from([0, 2, 1234, 2**31 - 2]), st.integers(0, 2**31 - 1)),
        "pid": st.integers(1, 65535),
        "computer": st.text(alphabet=S.token_chars + "-", min_size=1, max_size=15),
        "user": st.text(alphabet=S.token_chars + ". ", min_size=1, max_size=15),
        "masks": st.lists(st.binary(min_size=4, max_size=4), min_size=8, max_size=8),
        "prior_session": st.sampled_from([False, False, True]),
        "iv": st.one_of(st.none(), st.none(), st.none(), st.binary(min_size=16, max_size=16)),
    }
)
_big = st.tuples(st.integers(0, 3), st.integers(0, 255)).map(lambda t: b"\x00BIG" + bytes(t))
task_st = st.tuples(st.sampled_from(COMMANDS), st.integers(0, 39).flatmap(lambda i: _big if i == 0 else S.binary(0, 40)))
cb_st = st.tuples(st.sampled_from(CALLBACKS), st.integers(0, 39).flatmap(lambda i: _big if i == 0 else S.binary(0, 60)))


def machine(stats, rec):
    class SessionMachine(RuleBasedStateMachine):
        def __init__(self):
            super().__init__()
            self.ops = []
            self.sess = None
            self.init_case = None

        def case(self):
            return {"init": self.init_case, "ops": list(self.ops)}

        @initialize(init=init_strategy, first_task=st.one_of(st.none(), task_st))
        def start(self, init, first_task):
            self.init_case = init
            self.sess = rec.step(lambda: Session(init), self.case, stats)
            if self.sess is not None:
                self.do(("checkin", first_task))

        def do(self, op):
            if self.sess is None:
                return
            self.ops.append(op)
            rec.step(lambda: apply_op(self.sess, op), self.case, stats)

        @precondition(lambda self: self.sess is not None and len(self.ops) < 10)
        @rule(task=st.one_of(st.none(), task_st, task_st))
        def checkin(self, task):
            self.do(("checkin", task))

        @precondition(lambda self: self.sess is not None and len(self.ops) < 10)
        @rule(cb=cb_st)
        def callback(self, cb):
            self.do(("callback", cb[0], cb[1]))

        @precondition(lambda self: self.sess is not None and len(self.ops) < 10)
        @rule(items=st.lists(cb_st, min_size=2, max_size=4), masks=st.lists(st.binary(min_size=4, max_size=4), min_size=8, max_size=8))
        def multi_callback(self, items, masks):
            self.do(("multi", items, masks))

        @precondition(lambda self: self.sess is not None and len(self.ops) < 10)
        @rule(i=st.integers(0, 30))
        def duplicate(self, i):
            self.do(("duplicate", i))

        @precondition(lambda self: self.sess is not None)
        @rule(which=st.integers(0, 3))
        def unrelated(self, which):
            if len(self.ops) < 10:
                self.do(("unrelated", which))

        def teardown(self):
            if self.sess is not None:
                stats.evaluations += 1
                finish(self.sess, self.case(), stats)

    return SessionMachine


def execute(case, stats):
    sess = Session(case["init"])
    for op in case["ops"]:
        apply_op(sess, tuple(op))
    finish(sess, case, stats)


SUBS = [Sub("sessions", execute, machine=machine, examples={"quick": 960, "thorough": 16000}, steps=12)]
