"""C08 - untrusted input never crashes or hangs the parsers (fault enumeration, collect mode)."""

import io
import os
import random
import signal
import struct
import tempfile

from hypothesis import strategies as st

from .. import samples
from .. import strategies as S
from ..oracle import exc_key
from ..ref import detect, guard as G
from ..ref import pebuild, tlv, xorenc
from ..ref import httpwire as W
from ..runner import Discard, Sub, Violation, shard_iter

PROPERTY = "C08"
LEVEL = "fault_enumeration"
RULE = (
    "Entry points: BeaconConfig.from_bytes / from_file / from_path (default keys and all_xor_keys), "
    "XorEncodedFile.from_file, the six pe.find_* helpers on raw and XorEncoded views, list(iter_artifactkit_payloads), "
    "parse_raw_http. Inputs: (i) arbitrary bytes; (ii) STRUCTURED FAULTS on valid payloads built by the reference "
    "builders (raw config, PE-embedded, XorEncoded stage, Guardrails-protected) and on windows of the real samples: "
    "truncation at every landmark +-k and at random points, single-byte corruptions, splices, and crafted fields "
    "(NumberOfSections 0/65535, e_lfanew <= 0 / >= 1024 / past EOF, export RVA outside every section / past EOF, "
    "section pointers past EOF, setting length past the block, 128-byte User-Agent without NUL before EOF, guard "
    "marker closer than 6144 bytes to the file start, guard area without terminator, bit flips in the guard TLV "
    "fields), plus a systematic corruption sweep (every PE header byte set to 00/FF/flipped; every single-bit flip "
    "of the first 24 guard bytes and the 6 configuration bytes before them) and an ArtifactKit record (alone and behind an "
    "intact one) cut off at every byte. Oracle: every entry point "
    "returns or raises ValueError; anything else is bucketed by (exception type, innermost library frame) and the "
    "search continues (collect mode); a 20 s CPU-time watchdog (confirmed by a re-run) turns non-termination into a "
    "finding. Non-trivial: a structured-fault case (valid payload + >= 1 fault); distinct by the bytes fed."
)
ASSUMPTIONS = [
    "termination is semi-decidable: the watchdog is sound only with the analytic cost bound (< 2 s for inputs <= 64 KiB "
    "with <= 8 nonce-marker candidates); inputs with more ff-ff-ff candidates in the first 1027 bytes are discarded and counted",
    "accessing the pretty settings of an extracted configuration is not an entry point of this property (see C02/C03)",
]

WATCHDOG_S = 20


class _Timeout(BaseException):
    pass


def _on_alarm(signum, frame):
    raise _Timeout()


_SEEN = set()  # root-cause keys already collected (and minimised) in this process
_HUNG = set()  # entry points with a confirmed hang in this process: later calls get a short watchdog


def guarded(fn, seconds=WATCHDOG_S):
    """Run fn under the CPU-time watchdog. Returns ('ok', value) | ('exc', exception) | ('timeout', None)."""
    old = signal.signal(signal.SIGVTALRM, _on_alarm)
    signal.setitimer(signal.ITIMER_VIRTUAL, seconds)
    try:
        return "ok", fn()
    except _Timeout:
        return "timeout", None
    except ValueError as e:
        return "valueerror", e
    except Exception as e:
        return "exc", e
    finally:
        signal.setitimer(signal.ITIMER_VIRTUAL, 0)
        signal.signal(signal.SIGVTALRM, old)


def entry_points():
    from dissect.cobaltstrike import artifact, c2, pe
    from dissect.cobaltstrike.beacon import BeaconConfig
    from dissect.cobaltstrike.xordecode import XorEncodedFile

    def from_path(data):
        fd, path = tempfile.mkstemp(prefix="c08_", dir="/dev/shm")
        try:
            with os.fdopen(fd, "wb") as f:
                f.write(data)
            return BeaconConfig.from_path(path)
        finally:
            os.unlink(path)

    def from_path_xor(data):
        fd, path = tempfile.mkstemp(prefix="c08_", dir="/dev/shm")
        try:
            with os.fdopen(fd, "wb") as f:
                f.write(data)
            with open(path, "rb") as fh:
                return XorEncodedFile.from_file(fh).read(16)
        finally:
            os.unlink(path)

    def pe_raw(data):
        fh = io.BytesIO(data)
        return [pe.find_mz_offset(fh), pe.find_architecture(fh), pe.find_compile_stamps(fh), pe.find_magic_mz(fh), pe.find_magic_pe(fh), pe.find_stage_prepend_append(fh)]

    def pe_xor(data):
        try:
            fh = XorEncodedFile.from_file(io.BytesIO(data))
        except ValueError:
            return None
        return [pe.find_mz_offset(fh), pe.find_architecture(fh), pe.find_compile_stamps(fh), pe.find_magic_mz(fh), pe.find_magic_pe(fh), pe.find_stage_prepend_append(fh)]

    return {
        "from_bytes": lambda d: BeaconConfig.from_bytes(d),
        "from_file": lambda d: BeaconConfig.from_file(io.BytesIO(d)),
        "from_path": from_path,
        "from_bytes_all_keys": lambda d: BeaconConfig.from_bytes(d[:16384], all_xor_keys=True),
        "xordecode_from_file": lambda d: XorEncodedFile.from_file(io.BytesIO(d)).read(64),
        "xordecode_from_path": from_path_xor,
        "pe_helpers_raw": pe_raw,
        "pe_helpers_xor": pe_xor,
        "artifactkit": lambda d: [a.offset for a in artifact.iter_artifactkit_payloads(io.BytesIO(d))],
        "parse_raw_http": lambda d: c2.parse_raw_http(d),
    }


CHEAP = ["from_bytes", "xordecode_from_file", "pe_helpers_raw", "pe_helpers_xor", "artifactkit", "parse_raw_http"]
ALL = ["from_bytes", "from_file", "from_path", "from_bytes_all_keys", "xordecode_from_file", "xordecode_from_path", "pe_helpers_raw", "pe_helpers_xor", "artifactkit", "parse_raw_http"]


def run_entries(data: bytes, names, stats, what=""):
    eps = entry_points()
    for name in names:
        fn = eps[name]
        kind, val = guarded(lambda: fn(data), 3 if _HUNG else WATCHDOG_S)
        if kind == "timeout":
            if _HUNG:
                stats.count(f"repeat:hang:{name}")
            else:
                kind2, _ = guarded(lambda: fn(data))  # confirm
                if kind2 == "timeout":
                    _HUNG.add(name)
                    v = Violation(f"hang:{name}", f"{name} did not terminate within {WATCHDOG_S} s CPU on a {len(data)}-byte input ({what})")
                    stats.collect(v, {"data": data, "entry": name})
        elif kind == "exc":
            key = exc_key(val)
            if key in _SEEN:
                stats.count("repeat:" + key)
            else:
                _SEEN.add(key)
                v = Violation(key, f"{name} raised {type(val).__name__}: {str(val)[:200]} on a {len(data)}-byte input ({what})")
                stats.collect(v, {"data": minimize(fn, data, key), "entry": name})
        stats.count("calls")


def minimize(fn, data: bytes, key: str, budget=120) -> bytes:
    """ddmin-style reduction of a failing byte string (same exception bucket), bounded number of trials."""

    def fails(d):
        kind, val = guarded(lambda: fn(d))
        return kind == "exc" and exc_key(val) == key

    if len(data) > 200000:
        return data
    n = 2
    trials = 0
    cur = data
    while len(cur) >= 2 and trials < budget:
        chunk = max(1, len(cur) // n)
        reduced = False
        for i in range(0, len(cur), chunk):
            cand = cur[:i] + cur[i + chunk :]
            trials += 1
            if cand and fails(cand):
                cur = cand
                n = max(n - 1, 2)
                reduced = True
                break
            if trials >= budget:
                break
        if not reduced:
            if chunk == 1:
                break
            n = min(n * 2, len(cur))
    # zero out bytes that do not matter (readability)
    return cur


# ------------------------------------------------------------------------------------------ raw bytes
def raw_strategy():
    return st.fixed_dictionaries(
        {
            "data": st.one_of(
                st.binary(max_size=512),
                S.binary(0, 200),
                st.binary(min_size=1024, max_size=4096),
                st.tuples(st.sampled_from([b"MZ", b"\x00\x01\x00\x01\x00\x02", b"GET / HTTP/1.1\r\n", b"HTTP/1.1 200 OK\r\n", b"\x69\x68\x69\x68\x69\x6b", b"\x2e\x2f\x2e\x2f\x2e\x2c", b"\xfc\xe8"]), st.binary(max_size=300)).map(lambda t: t[0] + t[1]),
                # featureless data holding one dword that looks like an e_lfanew (1..1023) for an earlier offset: the "PE
                # header" it points to lies inside, at the very end of, or beyond the data (sizes around 1 KiB and 2 KiB)
                st.tuples(st.integers(60, 1100), st.integers(1, 1023), st.integers(0, 1200), st.sampled_from([0x00, 0x90, 0x41])).map(lambda t: bytes([t[3]]) * t[0] + struct.pack("<I", t[1]) + bytes([t[3]]) * t[2]),
            )
        }
    )


def raw_execute(case, stats):
    data = case["data"]
    if "entry" in case:
        run_entries(data, [case["entry"]], stats, what="replay")
        return
    if detect.marker_count(data) > 8:
        raise Discard("more than 8 nonce marker candidates (bounded slow path)")
    run_entries(data, ALL if len(data) < 600 else CHEAP, stats, what="arbitrary bytes")
    stats.note({"d": data}, len(data) > 0, classes=["raw"])


# ------------------------------------------------------------------------------------------ structured faults
def build_base(base, rnd):
    """-> (plain view bytes, landmarks, encode function raw<-view)"""
    kind = base["kind"]
    lm = {}
    ident = lambda v: v
    if kind == "http":
        body = rnd.randbytes(base["n"] % 64)
        if base["n"] % 2:
            data = W.request(b"POST", b"/submit.php", [(b"id", b"12%34")], [(b"Host", b"a"), (b"Cookie", b"x: y")], body)
        else:
            data = W.response(200, b"OK", [(b"Content-Type", b"text/html")], body)
        lm["crlf"] = data.find(b"\r\n")
        lm["body"] = data.find(b"\r\n\r\n")
        return data, lm, ident
    if kind == "sample":
        from ..ref import anchor_samples as A

        name = base["name"]
        raw = samples.sample(name)
        if base["where"] == "head":
            data = raw[: 4096 + (base["n"] % 3) * 4096]
        else:
            meta = A.fixture()[name]
            if meta["xorencoded"] or meta["guardrails"]:
                data = raw[: 8192]
            else:
                view = A.sample_view(name)
                pos = view.find(tlv.xor1(tlv.HEADER, meta["xorkey"][0]))
                data = view[max(0, pos - 2048) : pos + 6144]
        lm["mid"] = len(data) // 2
        lm["end"] = len(data)
        return data, lm, ident
    settings = [(1, 1, b"\x00\x08"), (2, 1, b"\x01\xbb"), (3, 2, b"\x00\x00\xea\x60"), (9, 3, b"Mozilla/5.0" + b"\x00" * 117), (8, 3, b"a.example.com,/x" + b"\x00" * 48), (37, 2, b"\x12\x34\x56\x78"), (78, 3, bytes(23))]
    if base.get("ua_edge"):
        settings[3] = (9, 3, b"U" * 0x80)
    block = tlv.encode(settings, pad_to=None if base.get("short") else 4096)
    if base.get("ua_edge") and base.get("short"):
        # 128 non-NUL bytes followed by non-NUL bytes up to EOF: no terminator at all
        block = tlv.encode(settings[:4], terminator=False) + b"VVVV"
    key = base["key"]
    ob = tlv.xor1(block, key)
    if kind == "rawcfg":
        pre = rnd.randbytes(base["n"] % 300)
        data = pre + ob + (b"" if base.get("short") else rnd.randbytes(base["n"] % 50))
        lm["cfg"] = len(pre)
        lm["cfg_len1"] = len(pre) + 6 + 2 + 4  # length field of the 2nd setting
        lm["cfg_ua_len"] = len(pre) + 8 + 8 + 10 + 4
        return data, lm, ident
    if kind in ("pe", "xorpe"):
        secs = ((".text", b"\xcc" * 96), (".rdata", b"\x11" * 80), (".data", rnd.randbytes(base["n"] % 40) + ob))
        img, info = pebuild.build_pe(arch=base["arch"], sections=secs, export_section=1, export_offset=8, e_lfanew=0x80 + 8 * (base["n"] % 8))
        pre = b"\x90" * (base["n"] % 9)
        view = pre + img + b"\x41\x42" * (base["n"] % 3)
        e = info["e_lfanew"]
        p = len(pre)
        opt = p + e + 24
        lm.update(
            mz=p, e_lfanew=p + 0x3C, pe=p + e, machine=p + e + 4, nsections=p + e + 6, opt_magic=opt,
            size_of_headers=opt + 60, export_rva=opt + (96 if base["arch"] == "x86" else 112), sec0=opt + (224 if base["arch"] == "x86" else 240),
            cfg=p + info["sections"][2]["raw_ptr"] + base["n"] % 40, end=len(view),
        )  # fmt: skip
        lm["sec1_vsize"] = lm["sec0"] + 40 + 8
        lm["sec1_va"] = lm["sec0"] + 40 + 12
        lm["sec1_rawsize"] = lm["sec0"] + 40 + 16
        lm["sec1_rawptr"] = lm["sec0"] + 40 + 20
        lm["export_dir"] = p + info["sections"][1]["raw_ptr"] + 8
        if kind == "pe":
            return view, lm, ident
        nonce = rnd.randbytes(4)
        stub = b"\xfc\xe8" + rnd.randbytes(base["n"] % 60).replace(b"\xff", b"\xfe")

        def enc(v):
            return xorenc.build_stage(v, nonce, stub, marker=True)

        lm["raw_nonce"] = len(stub) + 3
        return view, lm, enc
    if kind == "guard":
        plain = block if len(block) >= G.CONFIG_SIZE else block + b"\x00" * (G.CONFIG_SIZE - len(block))
        plain = plain[: G.CONFIG_SIZE]
        envkey = bytes(rnd.choice(b"abcdefghijklmnopqrstuvwxyz0123456789-") for _ in range(2 + base["n"] % 30))
        mb, mg, _ = G.protect(plain, envkey, [(G.GUARD_COMPUTER, 1)], guard_pad=b"" if not base.get("noterm") else b"")
        if base.get("noterm"):
            # guard area without terminator: every byte of the plain guard TLV area non-zero after the settings
            c = G.checksum(plain)
            gp = G.guard_tlv([(G.GUARD_COMPUTER, 1)], c)[:-2]
            gp = gp + b"\x07" * (G.GUARD_SIZE - len(gp))
            mg = bytes(a ^ b ^ 0x8A for a, b in zip(gp, mb[::-1][: G.GUARD_SIZE]))
        pre = b"\x41" * (base["n"] % 200)
        data = pre + mb + mg + rnd.randbytes(base["n"] % 20)
        lm["cfg"] = len(pre)
        lm["guard"] = g0 = len(pre) + G.CONFIG_SIZE
        lm["end"] = len(data)
        # fields of the (masked) guard TLV: [opt type len value(2)] [0009 0002 0004 checksum(4)] 0000
        lm.update(guard_opt1=g0, guard_type1=g0 + 2, guard_len1=g0 + 4, guard_cs_opt=g0 + 8, guard_cs_type=g0 + 10, guard_cs_len=g0 + 12, guard_cs_val=g0 + 14, guard_term=g0 + 18, cfg_tail=g0 - 6)
        if base.get("early_marker"):
            # guard marker closer to the file start than the 6144-byte configuration that should precede it
            cut = G.CONFIG_SIZE - (base["n"] % 200) - 6
            data = data[len(pre) + cut :]
            lm = {"guard": G.CONFIG_SIZE - cut, "end": len(data)}
        return data, lm, ident
    raise ValueError(kind)


def apply_faults(data: bytes, lm, faults):
    b = bytearray(data)
    for f in faults:
        op = f[0]
        if op == "trunc_at":
            name, delta = f[1], f[2]
            if name in lm:
                b = b[: max(0, lm[name] + delta)]
        elif op == "trunc":
            b = b[: f[1] % (len(b) + 1)]
        elif op == "flip":
            if b:
                b[f[1] % len(b)] ^= f[2]
        elif op == "splice":
            pos = f[1] % (len(b) + 1)
            b[pos:pos] = f[2]
        elif op == "cut":
            pos = f[1] % (len(b) + 1)
            del b[pos : pos + f[2]]
        elif op == "field":
            name, val = f[1], f[2]
            if name in lm and lm[name] + len(val) <= len(b):
                b[lm[name] : lm[name] + len(val)] = val
        elif op == "xor_field":
            # masked areas (Guardrails): flipping bits of the stored bytes flips the same bits of the plaintext field
            name, val = f[1], f[2]
            if name in lm and lm[name] + len(val) <= len(b):
                for i, v in enumerate(val):
                    b[lm[name] + i] ^= v
    return bytes(b)


U32 = [0, 1, 0x10, 0x3FF, 0x400, 0x1000, 0x7FFFFFFF, 0x80000000, 0xFFFFFFFF, 0xFFFFFFF0]
CRAFTED = (
    [("field", "nsections", struct.pack("<H", v)) for v in (0, 1, 2, 4, 100, 0xFFFF)]
    + [("field", "e_lfanew", struct.pack("<I", v)) for v in (0, 1, 0x3F, 0x3FF, 0x400, 0x10000, 0x7FFFFFFF, 0x80000000, 0xFFFFFFFF)]
    + [("field", "export_rva", struct.pack("<I", v)) for v in U32 + [0x1008, 0x2000, 0x2008, 0x204F]]
    + [("field", "sec1_rawptr", struct.pack("<I", v)) for v in U32]
    + [("field", "sec1_vsize", struct.pack("<I", v)) for v in U32]
    + [("field", "sec1_va", struct.pack("<I", v)) for v in U32]
    + [("field", "sec1_rawsize", struct.pack("<I", v)) for v in U32]
    + [("field", "size_of_headers", struct.pack("<I", v)) for v in U32]
    + [("field", "machine", struct.pack("<H", v)) for v in (0, 0x200, 0x14C, 0x8664)]
    + [("field", "opt_magic", struct.pack("<H", v)) for v in (0, 0x10B, 0x20B)]
    + [("field", "cfg_len1", struct.pack(">H", v)) for v in (0, 0xFFFF, 0x1000, 0x7FFF)]
    + [("field", "cfg_ua_len", struct.pack(">H", v)) for v in (0x80, 0x7F, 0xFFFF)]
    + [("xor_field", name, val) for name in ("guard_len1", "guard_cs_len", "guard_cs_type", "guard_cs_opt", "guard_type1", "guard_term") for val in (b"\x00\x01", b"\x00\x02", b"\x00\x04", b"\x00\x06", b"\x00\x07", b"\x00\xff", b"\xff\xff", b"\x01\x00", b"\x80\x00")]
    + [("xor_field", "guard_cs_val", val) for val in (b"\x00\x00\x00\x01", b"\xff\xff\xff\xff")]
)


def fault_strategy():
    landmark = st.sampled_from(["guard_len1", "guard_cs_len", "guard_term", "cfg_tail", "mz", "e_lfanew", "pe", "machine", "nsections", "opt_magic", "export_rva", "sec0", "sec1_rawptr", "export_dir", "cfg", "cfg_len1", "cfg_ua_len", "guard", "end", "mid", "crlf", "body", "size_of_headers"])
    fault = st.one_of(
        st.tuples(st.just("trunc_at"), landmark, st.integers(-8, 70)),
        st.tuples(st.just("trunc"), st.integers(0, 1 << 20)),
        st.tuples(st.just("flip"), st.integers(0, 1 << 20), st.sampled_from([1, 0x80, 0xFF, 0x55])),
        st.tuples(st.just("splice"), st.integers(0, 1 << 20), st.binary(min_size=1, max_size=8)),
        st.tuples(st.just("cut"), st.integers(0, 1 << 20), st.integers(1, 64)),
        st.sampled_from(CRAFTED),
        st.sampled_from(CRAFTED),
    )
    base = st.one_of(
        st.fixed_dictionaries({"kind": st.just("rawcfg"), "key": st.sampled_from([0x2E, 0x69, 0x00]), "n": st.integers(0, 10000), "short": st.booleans(), "ua_edge": st.booleans()}),
        st.fixed_dictionaries({"kind": st.sampled_from(["pe", "xorpe"]), "arch": st.sampled_from(["x86", "x64"]), "key": st.sampled_from([0x2E, 0x69]), "n": st.integers(0, 10000), "short": st.booleans(), "ua_edge": st.booleans()}),
        st.fixed_dictionaries({"kind": st.just("guard"), "key": st.just(0), "n": st.integers(0, 10000), "noterm": st.booleans(), "early_marker": st.booleans()}),
        st.fixed_dictionaries({"kind": st.just("sample"), "name": st.sampled_from(sorted(samples.NAMES)), "where": st.sampled_from(["head", "config"]), "n": st.integers(0, 10000)}),
        st.fixed_dictionaries({"kind": st.just("http"), "n": st.integers(0, 10000)}),
    )
    return st.fixed_dictionaries({"base": base, "plain_faults": st.lists(fault, max_size=2), "raw_faults": st.lists(fault, max_size=2), "seed": st.integers(0, 2**32 - 1)})


def fault_execute(case, stats):
    if "data" in case:
        run_entries(case["data"], [case["entry"]], stats, what="replay")
        return
    rnd = random.Random(case["seed"])
    view, lm, enc = build_base(case["base"], rnd)
    view = apply_faults(view, lm, [tuple(f) for f in case["plain_faults"]])
    data = enc(view)
    raw_lm = lm if enc.__name__ == "<lambda>" and case["base"]["kind"] not in ("xorpe",) else {k: v for k, v in lm.items() if k.startswith("raw_")}
    data = apply_faults(data, raw_lm, [tuple(f) for f in case["raw_faults"]])
    if detect.marker_count(data) > 8:
        raise Discard("more than 8 nonce marker candidates (bounded slow path)")
    kind = case["base"]["kind"]
    names = ["parse_raw_http", "artifactkit"] if kind == "http" else ["from_bytes", "from_path", "xordecode_from_file", "pe_helpers_raw", "pe_helpers_xor", "artifactkit"]
    if kind in ("rawcfg", "guard") and len(data) <= 16384 and case["seed"] % 4 == 0:
        names = names + ["from_bytes_all_keys", "from_file", "xordecode_from_path"]
    run_entries(data, names, stats, what=f"{kind} + {len(case['plain_faults']) + len(case['raw_faults'])} faults")
    nfaults = len(case["plain_faults"]) + len(case["raw_faults"])
    stats.note({"d": data}, nfaults >= 1 or bool(case["base"].get("ua_edge") or case["base"].get("noterm") or case["base"].get("early_marker")), classes=["base_" + kind, "faults%d" % nfaults])


# ------------------------------------------------------------------------------------------ systematic truncation sweep
def sweep_enumerate(tier, shard, nshards):
    def gen():
        for kind in ("rawcfg", "pe", "xorpe", "guard"):
            for arch in ("x86", "x64") if kind in ("pe", "xorpe") else ("x86",):
                for variant in range(2 if tier == "quick" else 6):
                    for part in range(6):
                        yield {"kind": kind, "arch": arch, "variant": variant, "part": part}

    return shard_iter(gen(), shard, nshards)


def sweep_execute(case, stats):
    """Every truncation point inside the header / config / guard regions of one valid payload."""
    if "data" in case:
        run_entries(case["data"], [case["entry"]], stats, what="replay")
        return
    rnd = random.Random(case["variant"])
    base = {"kind": case["kind"], "arch": case["arch"], "key": 0x2E, "n": 17 + 101 * case["variant"], "short": case["variant"] % 2 == 1, "ua_edge": case["variant"] % 3 == 2}
    view, lm, enc = build_base(base, rnd)
    points = set()
    for name, off in lm.items():
        if name.startswith("raw_"):
            continue
        for d in range(-4, 80):
            points.add(off + d)
    points |= set(range(0, min(len(view), 700)))
    points = sorted(p for p in points if 0 <= p <= len(view))
    points = points[case.get("part", 0) :: 6] if "part" in case else points
    if case["kind"] == "guard":
        points = [p for p in points if p % 3 == 0 or abs(p - lm.get("guard", 0)) < 40]
    n = 0
    for p in points:
        data = enc(view[:p])
        if detect.marker_count(data) > 8:
            continue
        names = ["from_bytes", "pe_helpers_raw", "pe_helpers_xor", "xordecode_from_file"] if case["kind"] != "guard" else ["from_bytes"]
        run_entries(data, names, stats, what=f"{case['kind']} truncated at {p}")
        n += 1
    stats.count("truncation_points", n)
    stats.note(case, True, classes=["sweep_" + case["kind"]])


# ------------------------------------------------------------------------------------------ atheris (thorough)
import collections

COUNTERS = collections.Counter()
FUZZ_ENTRIES = {"a": ["from_bytes", "xordecode_from_file", "pe_helpers_raw", "pe_helpers_xor"], "b": ["artifactkit", "parse_raw_http"]}


def _fuzz(data, names):
    data = bytes(data)
    if detect.marker_count(data) > 8:
        raise Discard("slow path")
    eps = entry_points()
    for name in names:
        try:
            eps[name](data)
            COUNTERS[name + ":returned"] += 1
        except ValueError:
            COUNTERS[name + ":valueerror"] += 1
        except Exception as e:
            raise Violation(exc_key(e), f"{name} raised {type(e).__name__}: {str(e)[:200]} on a {len(data)}-byte fuzz input")


def fuzz_extract(data):
    _fuzz(data, FUZZ_ENTRIES["a"])


def fuzz_scanners(data):
    _fuzz(data, FUZZ_ENTRIES["b"])


def fuzz_execute(case, stats):
    run_entries(case["data"], [case["entry"]] if "entry" in case else FUZZ_ENTRIES["a"] + FUZZ_ENTRIES["b"], stats, what="fuzz replay")
    stats.note({"d": case["data"]}, True, classes=["fuzz_replay"])


def fuzz_custom(tier, seed, shard, nshards, stats, rec):
    if tier != "thorough":
        return
    from ..fuzz.run import campaign

    rnd = random.Random(1)
    seeds = []
    if shard % 2 == 0:
        for base in ({"kind": "rawcfg", "key": 0x2E, "n": 5, "short": True, "ua_edge": False}, {"kind": "pe", "arch": "x86", "key": 0x2E, "n": 3, "short": True, "ua_edge": False}, {"kind": "xorpe", "arch": "x64", "key": 0x69, "n": 7, "short": True, "ua_edge": True}):
            view, lm, enc = build_base(base, rnd)
            seeds.append(enc(view))
    target = "fuzz_extract" if shard % 4 < 2 else "fuzz_scanners"
    campaign("harness.props.c08", target, seeds if target == "fuzz_extract" else [b"GET / HTTP/1.1\r\n\r\n"][: len(seeds)], runs=4000 if target == "fuzz_extract" else 150000, seed=seed, stats=stats, max_len=2048)
    stats.note({"shard": shard, "target": target, "seeded": bool(seeds)}, True, classes=["atheris_" + target])


# ------------------------------------------------------------------------------------------ systematic field corruption sweep
def corrupt_enumerate(tier, shard, nshards):
    def gen():
        kinds = (("pe", "x86"), ("xorpe", "x64"), ("guard", "x86")) if tier == "quick" else (("pe", "x86"), ("pe", "x64"), ("xorpe", "x64"), ("xorpe", "x86"), ("guard", "x86"))
        for kind, arch in kinds:
            for variant in range(1 if tier == "quick" else 3):
                for part in range(8):
                    yield {"kind": kind, "arch": arch, "variant": variant, "part": part, "tier": tier}

    return shard_iter(gen(), shard, nshards)


def corrupt_execute(case, stats):
    """Every byte of the PE headers set to 00 / FF / flipped in bit 0 and 7; every single-bit flip of the first 24
    bytes of the guard area and of the 6 configuration bytes in front of it."""
    if "data" in case:
        run_entries(case["data"], [case["entry"]], stats, what="replay")
        return
    rnd = random.Random(100 + case["variant"])
    base = {"kind": case["kind"], "arch": case["arch"], "key": 0x2E, "n": 23 + 57 * case["variant"], "short": True, "ua_edge": False}
    view, lm, enc = build_base(base, rnd)
    muts = []
    if case["kind"] == "guard":
        for pos in range(lm["guard"] - 6, lm["guard"] + 24):
            for bit in range(8):
                muts.append((pos, lambda b, bit=bit: b ^ (1 << bit)))
        names = ["from_bytes"]
    else:
        end = lm["sec0"] + 40 * 3
        for pos in range(lm["mz"], min(end, len(view))):
            fns = (lambda b: 0x00, lambda b: 0xFF) if case.get("tier") == "quick" else (lambda b: 0x00, lambda b: 0xFF, lambda b: b ^ 0x01, lambda b: b ^ 0x80)
            for fn in fns:
                muts.append((pos, fn))
        names = ["from_bytes", "pe_helpers_raw", "pe_helpers_xor"]
    muts = muts[case["part"] :: 8]
    n = 0
    for pos, fn in muts:
        b = bytearray(view)
        new = fn(b[pos]) & 0xFF
        if new == b[pos]:
            continue
        b[pos] = new
        data = enc(bytes(b))
        if detect.marker_count(data) > 8:
            continue
        run_entries(data, names, stats, what=f"{case['kind']} byte {pos} -> {new:#04x}")
        n += 1
    stats.count("corruptions", n)
    stats.note(case, True, classes=["corrupt_" + case["kind"]])


# ------------------------------------------------------------------------------------------ HTTP start-line grammar sweep
_HTTP_FIRST = [b"HTTP/1.1", b"HTTP/1.0", b"http/1.1", b"HTTP/2", b"HTTP/", b"HTTP", b"GET", b"POST", b"X", b"", b"HTTP/1.1\x00"]
_HTTP_SECOND = [b"200", b"299", b"404", b"600", b"999", b"0", b"-1", b"+200", b"20", b"1000", b"99999999999999999999999", b"2e2", b"0x10", b"1_0", b"\xd9\xa3", b"\xff", b"/", b"/index.html",
                b"/a?b=c", b"?a=b", b"http://203.0.113.7", b"*", b"/%zz?%=%", b"//", b"/\xff?\xff=\xff", b""]  # fmt: skip
_HTTP_THIRD = [None, b"OK", b"Not Found", b"HTTP/1.1", b"\xff", b"", b"OK extra tokens here"]
_HTTP_SEPS = [b" ", b"  ", b"\t", b"\x0b", b"\xa0"]
_HTTP_TAILS = [b"", b"\r\n\r\n", b"\r\nHost: x\r\n\r\nbody", b" \r\n\r\n", b"\n\n", b"\r\nNoColon\r\n: empty\r\nK: \r\n\r\n\x00\x01"]


def http_lines_enumerate(tier, shard, nshards):
    def gen():
        for a in range(len(_HTTP_FIRST)):
            for b in range(len(_HTTP_SECOND)):
                yield {"first": a, "second": b}

    return shard_iter(gen(), shard, nshards)


def http_lines_execute(case, stats):
    """Request / status lines from a small grammar (1-4+ tokens, numeric oddities in the status, optional reason,
    separators, with and without header block): parse_raw_http returns or raises ValueError, nothing else."""
    if "data" in case:
        run_entries(case["data"], [case["entry"]], stats, what="replay")
        return
    a, b = _HTTP_FIRST[case["first"]], _HTTP_SECOND[case["second"]]
    n = 0
    for third in _HTTP_THIRD:
        for sep in _HTTP_SEPS:
            for tail in _HTTP_TAILS:
                toks = [a, b] + ([third] if third is not None else [])
                data = sep.join(toks) + tail
                run_entries(data, ["parse_raw_http"], stats, what="start-line grammar")
                n += 1
    stats.count("http_lines", n)
    stats.note(case, True, classes=["http_start_line"])


# ------------------------------------------------------------------------------------------ guard markers at every position
def guardpos_enumerate(tier, shard, nshards):
    def gen():
        pos = list(range(0, 40)) + list(range(6100, 6200)) + list(range(40, 6100, 61 if tier == "quick" else 7)) + [6200, 7000, 8191, 8192, 8193]
        for p in pos:
            yield {"pos": p, "opt": p % 4}

    return shard_iter(gen(), shard, nshards)


def guardpos_execute(case, stats):
    """A 12-byte Guardrails boundary look-alike at any offset of an otherwise featureless file (too early for a
    6144-byte configuration in front of it, exactly at the first possible position, later): every extraction entry
    point returns 'not found' the documented way."""
    if "data" in case:
        run_entries(case["data"], [case["entry"]], stats, what="replay")
        return
    starts = [b"\x00\x05\x00\x01\x00\x02", b"\x00\x06\x00\x01\x00\x02", b"\x00\x07\x00\x01\x00\x02", b"\x00\x08\x00\x02\x00\x04"]
    a6 = bytes((case["pos"] * 7 + i * 13 + 1) & 0xFF for i in range(6))
    blob = a6 + bytes(x ^ y ^ 0x8A for x, y in zip(a6[::-1], starts[case["opt"]]))
    for tail in (0, 5, 2100):
        data = b"\xaa" * case["pos"] + blob + b"\x55" * tail
        run_entries(data, ["from_bytes", "from_path"], stats, what=f"guard marker look-alike at offset {case['pos']}, {tail} bytes after it")
    stats.note(case, True, classes=["marker_before_6138" if case["pos"] < 6138 else "marker_at_or_after_6138"])


def artifact_enumerate(tier, shard, nshards):
    def gen():
        for prefix in (0, 1, 3, 4, 40, 100, 4093, 8190):
            for size in (0, 5, 64):
                yield {"prefix": prefix, "size": size}

    return shard_iter(gen(), shard, nshards)


def artifact_execute(case, stats):
    """An ArtifactKit record (a dword holding its own offset + 16, then size, key, two hint dwords and the masked
    payload) cut off at every point from its first byte to its last - alone and behind an intact record: the scanner
    terminates the documented way on each of them."""
    if "data" in case:
        run_entries(case["data"], [case["entry"]], stats, what="replay")
        return
    import struct

    def record(at, size):
        key = bytes([0x11, 0x22, 0x33, 0x44])
        payload = bytes((i * 5 + 1) & 0xFF for i in range(size))
        return struct.pack("<II", at + 16, size) + key + struct.pack("<II", 0x1000, 0x2000) + bytes(b ^ key[i % 4] for i, b in enumerate(payload))

    pre = bytes((i * 11 + 7) & 0xFF or 1 for i in range(case["prefix"]))
    first = pre + record(len(pre), case["size"])
    second = first + b"\xcc" * 9 + record(len(first) + 9, case["size"])
    n = 0
    for whole, start in ((first, len(pre)), (second, len(first) + 9)):
        for cut in range(start, len(whole) + 1):
            run_entries(whole[:cut], ["artifactkit"], stats, what=f"ArtifactKit record at {start} cut off at {cut} of {len(whole)}")
            n += 1
    stats.count("artifact_truncations", n)
    stats.note(case, True, classes=["prefix_%d" % case["prefix"]])


SUBS = [
    Sub("artifact_truncations", artifact_execute, enumerate=artifact_enumerate, exhaustive=True),
    Sub("guard_marker_positions", guardpos_execute, enumerate=guardpos_enumerate, exhaustive=True),
    Sub("http_start_lines", http_lines_execute, enumerate=http_lines_enumerate, exhaustive=True),
    Sub("field_corruption_sweep", corrupt_execute, enumerate=corrupt_enumerate, exhaustive=True),
    Sub("atheris_entry_points", fuzz_execute, custom=fuzz_custom, shards={"quick": 1, "thorough": 8}),
    Sub("raw_bytes", raw_execute, strategy=raw_strategy, examples={"quick": 1600, "thorough": 48000}),
    Sub("structured_faults", fault_execute, strategy=fault_strategy, examples={"quick": 1600, "thorough": 48000}),
    Sub("truncation_sweep", sweep_execute, enumerate=sweep_enumerate, exhaustive=True),
]
