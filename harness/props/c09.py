"""C09 - the XorEncoded file view is a faithful read-only file over the decoded bytes."""

import io

from hypothesis import strategies as st
from hypothesis.stateful import RuleBasedStateMachine, initialize, rule

from ..oracle import Raised, check, eq, lib
from ..ref import detect, pebuild, xorenc
from ..runner import Sub, Violation

PROPERTY = "C09"
LEVEL = "exploration"
RULE = (
    "Stateful: RuleBasedStateMachine over XorEncodedFile(BytesIO(stub+nonce+size+encoded)) with rules read(n) "
    "(n in -1,0,1..17,large), seek(SET/CUR/END) landing in [0,len+8], tell(); model = io.BytesIO(plaintext); every "
    "read result and tell() compared after each step. Non-trivial history: a read whose size is not a multiple "
    "of 4 followed by another read, or a seek to a position = 1..3 mod 4 followed by a read. Detection: generated "
    "stages (stub<=1000, marker and/or valid size field, prepend + reference PE image) and negatives; oracle = "
    "reference candidate analysis (size relation / ff ff ff marker, validated by the MZ/PE structure on the "
    "reference-decoded view). Non-trivial detection case: a stage with a PE image. Distinct by content."
)
ASSUMPTIONS = [
    "seek()'s return value is not checked (faithfulness is defined through read results and reported position)",
    "when several candidate offsets validate (self-synchronising lag-4 code) any validating candidate is accepted",
    "markers whose end lies within 3 bytes after the 1024-byte search range may or may not be considered",
]


# ------------------------------------------------------------------------------------------ view (stateful)
def new_view(init):
    from dissect.cobaltstrike.xordecode import XorEncodedFile

    plain, nonce, stub = init["plain"], init["nonce"], init["stub"]
    # the size dword may be garbage (stages located through the end-of-stub marker only): the view must not depend on it
    raw = xorenc.build_stage(plain, nonce, stub, marker=False, size_ok=init.get("size_ok", True), bad_size=init.get("bad_size", 0))
    real = lib(XorEncodedFile, io.BytesIO(raw), nonce_offset=len(stub), what="XorEncodedFile()")
    return {"real": real, "model": io.BytesIO(plain), "plain": plain, "size_ok": init.get("size_ok", True), "unaligned_then_read": False, "pending": False, "ops": 0}


def apply_op(st_, op):
    real, model = st_["real"], st_["model"]
    kind = op[0]
    n_plain = len(st_["plain"])
    if kind == "read":
        n = op[1]
        pos = model.tell()
        want = model.read() if n == -1 else model.read(n)
        got = lib(real.read, n, what=f"read({n})") if n != "noarg" else lib(real.read, what="read()")
        eq(bytes(got), want, "view:read_data", f"read({n}) at position {pos} of {n_plain}-byte plaintext")
        if st_["pending"]:
            st_["unaligned_then_read"] = True
        st_["pending"] = (len(want) % 4 != 0) or (model.tell() % 4 != 0)
    elif kind == "seek":
        _, off, whence = op
        # map the drawn number into a landing position within [0, len+8]
        if whence == 0:
            target = off % (n_plain + 9)
            arg = target
        elif whence == 1:
            target = off % (n_plain + 9)
            arg = target - model.tell()
        else:
            target = off % (n_plain + 9)
            arg = target - n_plain
        model.seek(target)
        lib(real.seek, arg, whence, what=f"seek({arg},{whence})")
        if target % 4:
            st_["pending"] = True
    elif kind == "tell":
        pass
    else:
        raise AssertionError(op)
    got_pos = lib(real.tell, what="tell()")
    eq(got_pos, model.tell(), "view:position", f"tell() after {op!r} (plaintext {n_plain} bytes)")
    st_["ops"] += 1


def finish(st_, case, stats):
    stats.evaluations += 0
    stats.note(
        case,
        st_["unaligned_then_read"],
        classes=["unaligned_then_read" if st_["unaligned_then_read"] else "aligned_only", "size_dword_valid" if st_.get("size_ok", True) else "size_dword_garbage", "len_mod4_%d" % (len(st_["plain"]) % 4)],
    )


init_strategy = st.fixed_dictionaries(
    {
        "plain": st.one_of(st.binary(max_size=40), st.binary(max_size=300)),
        "nonce": st.one_of(st.binary(min_size=4, max_size=4), st.sampled_from([b"\x00" * 4, b"\xff" * 4])),
        "stub": st.binary(max_size=64),
        "size_ok": st.booleans(),
        "bad_size": st.one_of(st.integers(0, 400), st.integers(0, 2**32 - 1)),
    }
)
read_sizes = st.one_of(st.sampled_from([-1, 0, 1, 2, 3, 4, 5, 7, 8, 12, 13, 16, 17]), st.integers(1, 17), st.integers(18, 400))


def view_machine(stats, rec):
    class ViewMachine(RuleBasedStateMachine):
        def __init__(self):
            super().__init__()
            self.ops = []
            self.st = None
            self.init_case = None

        def case(self):
            return {"init": self.init_case, "ops": list(self.ops)}

        @initialize(init=init_strategy)
        def start(self, init):
            self.init_case = init
            self.st = rec.step(lambda: new_view(init), self.case, stats)

        def do(self, op):
            if self.st is None:
                return
            self.ops.append(op)
            rec.step(lambda: apply_op(self.st, op), self.case, stats)

        @rule(n=read_sizes)
        def read(self, n):
            self.do(("read", n))

        @rule(off=st.integers(0, 1000), whence=st.sampled_from([0, 0, 1, 2]))
        def seek(self, off, whence):
            self.do(("seek", off, whence))

        @rule()
        def tell(self):
            self.do(("tell",))

        def teardown(self):
            if self.st is not None:
                stats.evaluations += 1
                finish(self.st, self.case(), stats)

    return ViewMachine


def view_execute(case, stats):
    st_ = new_view(case["init"])
    for op in case["ops"]:
        apply_op(st_, tuple(op))
    finish(st_, case, stats)


# ------------------------------------------------------------------------------------------ sequential streaming (cheap, many sizes)
def stream_strategy():
    return st.fixed_dictionaries(
        {
            "plain": st.binary(max_size=200),
            "nonce": st.binary(min_size=4, max_size=4),
            "stub": st.binary(max_size=16),
            "chunk": st.integers(1, 23),
            "start": st.integers(0, 40),
        }
    )


def stream_execute(case, stats):
    """Read the whole view in fixed-size chunks from a start position: concatenation must equal the plaintext."""
    from dissect.cobaltstrike.xordecode import XorEncodedFile

    plain = case["plain"]
    raw = xorenc.build_stage(plain, case["nonce"], case["stub"], marker=False)
    xf = lib(XorEncodedFile, io.BytesIO(raw), nonce_offset=len(case["stub"]))
    start = min(case["start"], len(plain))
    lib(xf.seek, start)
    out = b""
    for _ in range(len(plain) + 4):
        d = lib(xf.read, case["chunk"])
        if not d:
            break
        check(len(d) <= case["chunk"], "view:read_too_long", f"read({case['chunk']}) returned {len(d)} bytes")
        out += bytes(d)
        eq(lib(xf.tell), start + len(out), "view:position", f"tell() while streaming in chunks of {case['chunk']}")
    eq(out, plain[start:], "view:stream", f"streaming {len(plain)}-byte plaintext from {start} in chunks of {case['chunk']}")
    stats.note(case, case["chunk"] % 4 != 0 and len(plain) - start > case["chunk"], classes=["chunk_mod4_%d" % (case["chunk"] % 4)])


# ------------------------------------------------------------------------------------------ detection
def ref_validating(raw: bytes):
    """(must, may): candidate nonce offsets that validate under the reference analysis."""
    return detect.validating(raw)


def ref_support(raw: bytes):
    return detect.support(raw)


def ff_free(b: bytes) -> bytes:
    return b.replace(b"\xff\xff\xff", b"\xff\xfe\xff")


def detect_strategy():
    arch = st.sampled_from(["x86", "x64"])
    stage = st.fixed_dictionaries(
        {
            "kind": st.just("stage"),
            "arch": arch,
            "stub": st.one_of(
                st.binary(max_size=80).map(ff_free),
                st.binary(min_size=900, max_size=1000).map(ff_free),
                # the last offsets of the 1024-byte search range (a stage located through its size field only must still
                # be found with a stub of 1023 bytes; with the marker the nonce then lies beyond the range)
                st.integers(1001, 1023).flatmap(lambda n: st.binary(min_size=n, max_size=n)).map(ff_free),
                st.sampled_from([1016, 1017, 1020, 1021, 1023]).map(lambda n: b"\x90" * n),
                st.binary(max_size=1000).map(ff_free),
                # decoy marker early in a long stub: that candidate does not validate when the image is pushed out of range
                st.tuples(st.binary(max_size=40), st.integers(700, 950)).map(lambda t: ff_free(t[0]) + b"\xff\xff\xff" + b"\xcc" * t[1]),
                # stubs that end in (or contain) a run of ff bytes, e.g. "call $+4" = e8 ff ff ff ff: overlapping markers
                st.tuples(st.binary(max_size=60), st.integers(1, 9)).map(lambda t: ff_free(t[0]) + b"\xff" * t[1]),
                st.tuples(st.binary(max_size=30), st.integers(3, 8), st.binary(min_size=1, max_size=30)).map(lambda t: ff_free(t[0]) + b"\xff" * t[1] + b"\x90" + ff_free(t[2])),
            ),
            "mode": st.sampled_from(["both", "marker_only", "size_only"]),
            "bad_size": st.integers(0, 2**32 - 1),
            "nonce": st.binary(min_size=4, max_size=4),
            "prepend": st.one_of(st.just(b""), st.binary(max_size=64), st.integers(0, 900).map(lambda n: b"\x90" * n)),
            "e_lfanew": st.one_of(st.sampled_from([0x40, 0x80, 0xF8, 0x3F0, 0x3FF]), st.integers(0x40, 0x3FF)),
            "tail": st.binary(max_size=37),
            # detection is repeated with an explicit search range: None = not at all, a number = that much further than the
            # nonce and size field reach into the file (capped at the default 1024), "2048"/"65536" = a wider range
            "maxrange": st.one_of(st.none(), st.integers(0, 40), st.sampled_from([0, 1, 64, 120, 128, 256, 2048, 65536])),
        }
    )
    negative = st.fixed_dictionaries(
        {
            "kind": st.just("negative"),
            "arch": arch,
            "body": st.one_of(st.binary(max_size=300), st.binary(min_size=8, max_size=1500)),
            "plain_pe": st.booleans(),
            "with_marker": st.booleans(),
        }
    )
    return st.one_of(stage, stage, negative)


def _exercise_view(view, plain, how, salt):
    """A view handed out by a detecting constructor is the same read-only file as one constructed directly: a fixed
    script of seeks and reads (also at and beyond the end) against BytesIO over the decoded bytes."""
    model = io.BytesIO(plain)
    n = len(plain)
    script = [("seek", n + 6, 0), ("read", 4), ("seek", -5, 2), ("read", -1), ("read", 3), ("seek", salt % (n + 1), 0), ("read", 5), ("seek", 3, 1), ("read", 2), ("seek", 0, 2), ("read", 1), ("seek", n + 1000, 0), ("read", -1), ("seek", 1, 0), ("read", 7)]
    for op in script:
        if op[0] == "seek":
            if op[2] == 2 and n + op[1] < 0 or op[2] == 1 and model.tell() + op[1] < 0:
                continue
            model.seek(op[1], op[2])
            lib(view.seek, op[1], op[2], what=f"{how} view: seek({op[1]},{op[2]})")
        else:
            want = model.read(op[1])
            got = lib(view.read, op[1], what=f"{how} view: read({op[1]}) at {model.tell() - len(want)} of {n}")
            eq(bytes(got), want, "detect:view_not_a_file", f"{how} view: read({op[1]}) ending at position {model.tell()} of {n}")
        eq(lib(view.tell, what=f"{how} view: tell()"), model.tell(), "detect:view_not_a_file", f"{how} view: position after {op!r} ({n}-byte view)")


def detect_execute(case, stats):
    from dissect.cobaltstrike.xordecode import XorEncodedFile

    if case["kind"] == "stage":
        img, _info = pebuild.build_pe(arch=case["arch"], e_lfanew=case["e_lfanew"])
        plain = case["prepend"] + img + case["tail"]
        marker = case["mode"] in ("both", "marker_only")
        size_ok = case["mode"] in ("both", "size_only")
        raw = xorenc.build_stage(plain, case["nonce"], case["stub"], marker=marker, size_ok=size_ok, bad_size=case["bad_size"])
        true_off = xorenc.nonce_offset(case["stub"], marker)
    else:
        body = case["body"]
        if case["with_marker"]:
            body = body[: len(body) // 2] + b"\xff\xff\xff" + body[len(body) // 2 :]
        if case["plain_pe"]:
            img, _ = pebuild.build_pe(arch=case["arch"])
            body = body[:50] + img + body[50:]
        raw = body
        plain = None
        true_off = None
    must, may = ref_validating(raw)
    fobj = io.BytesIO(raw)
    fobj.seek(len(raw) * (case.get("bad_size", 0) % 4) // 3 if case["kind"] == "stage" else len(raw) // 2)  # detection must not depend on the handle's position
    r = lib(XorEncodedFile.from_file, fobj, allow=(ValueError,), what="XorEncodedFile.from_file")
    # ... nor on having been run on the same handle before
    r_again = lib(XorEncodedFile.from_file, fobj, allow=(ValueError,), what="XorEncodedFile.from_file (second call, same handle)")
    check(isinstance(r, Raised) == isinstance(r_again, Raised) and (isinstance(r, Raised) or r.nonce_offset == r_again.nonce_offset), "detect:depends_on_history", lambda: f"second from_file() on the same handle: {r!r} then {r_again!r}")
    ctx = lambda: f"raw[:96]={raw[:96].hex()} len={len(raw)} true_offset={true_off} must={must} may={may} got={r!r}"
    if len(raw) % 8 == 0:
        # the path-based constructor is the same detection over the file's bytes
        import os
        import tempfile

        fd, path = tempfile.mkstemp(prefix="c09_", dir="/dev/shm" if os.path.isdir("/dev/shm") else None)
        try:
            with os.fdopen(fd, "wb") as f:
                f.write(raw)
            rp = lib(XorEncodedFile.from_path, path, allow=(ValueError,), what="XorEncodedFile.from_path")
            same_ = isinstance(r, Raised) == isinstance(rp, Raised) and (isinstance(r, Raised) or r.nonce_offset == rp.nonce_offset)
            if not isinstance(rp, Raised):
                want_p = xorenc.decode_body(raw[rp.nonce_offset + 8 :], raw[rp.nonce_offset : rp.nonce_offset + 4])
                same_ = same_ and bytes(lib(rp.read)) == want_p
                _exercise_view(rp, want_p, "from_path", len(raw))
                rp.fh.close()
            stats.count("from_path")
            check(same_, "detect:from_path_differs", lambda: f"from_path: {rp!r}, from_file on the same bytes: {r!r}; raw[:64]={raw[:64].hex()}")
        finally:
            os.unlink(path)
    if isinstance(r, Raised):
        check(not must, "detect:missed_stage", ctx)
        cls = "rejected"
    else:
        check(r.nonce_offset in must + may, "detect:unsound_offset", ctx)
        got_view = bytes(lib(r.read))
        want_view = xorenc.decode_body(raw[r.nonce_offset + 8 :], raw[r.nonce_offset : r.nonce_offset + 4])
        eq(got_view, want_view, "detect:view_content", f"view at nonce_offset {r.nonce_offset}")
        check(pebuild.scan_mz(got_view) is not None, "detect:no_pe_in_view", ctx)
        _exercise_view(r, want_view, "from_file", len(raw))
        cls = "accepted"
    if true_off is not None and case.get("maxrange") is not None and not isinstance(r, Raised):
        # ``maxrange`` is how far into the FILE nonce_offset candidates are looked for: a range that covers stub, nonce and
        # size field finds the same stage (ranges up to the default only remove candidates; wider ones may add some)
        mr = case["maxrange"]
        M = mr if mr >= 2048 else min(1024, true_off + 8 + mr)
        if M >= true_off + 8:
            fobj.seek(len(raw) // 3)
            call = (lambda: XorEncodedFile.from_file(fobj, maxrange=M)) if M % 2 else (lambda: XorEncodedFile.from_file(fobj, M))
            rm = lib(call, allow=(ValueError,), what=f"XorEncodedFile.from_file(maxrange={M})")
            stats.count("explicit_maxrange")
            check(not isinstance(rm, Raised), "detect:maxrange_covers_stub_but_rejected", lambda: f"from_file(maxrange={M}) -> {rm!r}; the nonce and size field end at {true_off + 8}, e_lfanew={case['e_lfanew']}; default range found nonce_offset {r.nonce_offset}")
            if M <= 1024 and must == [true_off] and not may:
                eq(rm.nonce_offset, true_off, "detect:maxrange_wrong_offset", f"nonce_offset with maxrange={M}")
            check(pebuild.scan_mz(bytes(lib(rm.read))) is not None, "detect:no_pe_in_view", lambda: f"view of from_file(maxrange={M})")
    if true_off is not None:
        check(true_off in must or len(case["stub"]) + (3 if case["mode"] != "size_only" else 0) > 1024, "harness:true_offset_not_candidate", ctx)
        if must == [true_off] and not may:
            check(not isinstance(r, Raised) and r.nonce_offset == true_off, "detect:wrong_offset", ctx)
            lib(r.seek, 0)
            eq(bytes(lib(r.read)), plain, "detect:plaintext", "decoded view of the generated stage")
        else:
            stats.count("ambiguous_stage")
            # several offsets validate (e.g. overlapping markers in a run of ff bytes): candidates proposed by both
            # methods are tried first, so a stage whose true offset is the only validating one backed by the marker
            # AND the size field is still located exactly
            sup = ref_support(raw)
            best = [c for c in must if sup.get(c, 0) >= 2]
            if best == [true_off] and not may:
                stats.count("ambiguous_resolved_by_both_methods")
                check(not isinstance(r, Raised) and r.nonce_offset == true_off, "detect:wrong_offset", ctx)
                lib(r.seek, 0)
                eq(bytes(lib(r.read)), plain, "detect:plaintext", "decoded view of the generated stage")
    stats.note(
        case,
        case["kind"] == "stage",
        classes=[case["kind"], cls, case.get("mode", "neg"), "decoy_marker_in_stub" if case["kind"] == "stage" and b"\xff\xff\xff" in case["stub"] else "ff_run_at_stub_end" if case["kind"] == "stage" and case["stub"].endswith(b"\xff") else "clean_stub", "long_stub" if case["kind"] == "stage" and len(case["stub"]) > 800 else "short_stub"],
    )


def large_enumerate(tier, shard, nshards):
    from ..runner import shard_iter

    def gen():
        for size in (65535, 65536, 70001, 131072, 131074, 262147, 1048576):
            for chunk in (8192, 65536, 4099):
                yield {"size": size, "chunk": chunk}

    return shard_iter(gen(), shard, nshards)


def large_execute(case, stats):
    """Views over large plaintexts (beyond 64 / 128 / 256 KiB): streaming, far seeks, END-relative reads."""
    import random as _r

    from dissect.cobaltstrike.xordecode import XorEncodedFile

    rnd = _r.Random(case["size"])
    plain = rnd.randbytes(case["size"])
    raw = xorenc.build_stage(plain, b"\x10\x20\x30\x40", b"\x90" * 7, marker=False)
    xf = lib(XorEncodedFile, io.BytesIO(raw), nonce_offset=7)
    out = b""
    while True:
        d = lib(xf.read, case["chunk"])
        if not d:
            break
        out += bytes(d)
        eq(lib(xf.tell), len(out), "view:position", f"tell() while streaming a {case['size']}-byte view in chunks of {case['chunk']}")
    eq(out == plain, True, "view:stream", f"streaming a {case['size']}-byte view in chunks of {case['chunk']}")
    for pos in (65533, 65536, case["size"] - 5, case["size"] // 2 + 1):
        if 0 <= pos <= len(plain):
            lib(xf.seek, pos)
            eq(bytes(lib(xf.read, 11)), plain[pos : pos + 11], "view:read_data", f"read(11) at {pos} of a {case['size']}-byte view")
    lib(xf.seek, -9, 2)
    eq(bytes(lib(xf.read)), plain[-9:], "view:read_data", "read() after seek(-9, END) on a large view")
    stats.note(case, True, classes=["large_view"])


SUBS = [
    Sub("view_large", large_execute, enumerate=large_enumerate, exhaustive=True),
    Sub("view_stateful", view_execute, machine=view_machine, examples={"quick": 3200, "thorough": 48000}, steps=40),
    Sub("view_stream", stream_execute, strategy=stream_strategy, examples={"quick": 3200, "thorough": 64000}),
    Sub("detect", detect_execute, strategy=detect_strategy, examples={"quick": 1600, "thorough": 32000}),
]
