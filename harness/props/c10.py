"""C10 - regenerated profile text preserves every token of the parsed profile."""

from hypothesis import strategies as st

from .. import profile_gen as G
from .. import samples
from ..oracle import Raised, check, eq, lib
from ..ref import profile_lang as PL
from ..runner import Sub, Violation, shard_iter

PROPERTY = "C10"
LEVEL = "exploration"
RULE = (
    "Sentences of a frozen reference description of the profile language (harness/ref/profile_lang.py): a "
    "deterministic pass emits every statement form once (all blocks, variants, options, data transforms, execute and "
    "BeaconGate statements), then random profiles (<= 10 top-level items, nesting, repeated and empty blocks, random "
    "statement order, string literals from the escape grammar) rendered with random whitespace, newlines and # "
    "comments. A second generator derives sentences from the LIVE grammar (c2profile_parser.rules) so productions added "
    "later are round-tripped too. Oracle: every sentence is accepted; an independent tokenizer gives "
    "tokens(source) == tokens(as_text()); from_text(as_text()).tree == tree. Non-trivial: >= 3 statements and >= 1 "
    "nested block. Distinct by content."
)
ASSUMPTIONS = [
    "the '# dns_resolver' production is excluded: in source text it is a comment, it only arises from from_beacon_config (C13)",
    "live-grammar sentences are capped in depth; the reference table is anchored to tests/profiles/amazon.profile",
]


def roundtrip(source, stats=None, what="profile"):
    from dissect.cobaltstrike import c2profile

    src_tokens = PL.tokenize(source)
    p = lib(c2profile.C2Profile.from_text, source, allow=(Exception,), what="from_text")
    if isinstance(p, Raised):
        raise Violation("parse:rejected", f"{what} rejected: {str(p.exc)[:300]!r}; source={source[:400]!r}")
    text = lib(p.as_text, what="as_text")
    text_again = lib(p.as_text, what="as_text (second call)")
    if text_again != text:
        raise Violation("text:not_repeatable", f"{what}: as_text() returns different text on the second call")
    out_tokens = PL.tokenize(text)
    if out_tokens != src_tokens:
        i = next((k for k, (a, b) in enumerate(zip(src_tokens, out_tokens)) if a != b), min(len(src_tokens), len(out_tokens)))
        raise Violation("text:token_changed", f"{what}: token {i} differs: source ...{src_tokens[max(0, i - 4):i + 2]} vs regenerated ...{out_tokens[max(0, i - 4):i + 2]}")
    p2 = lib(c2profile.C2Profile.from_text, text, allow=(Exception,), what="from_text(as_text())")
    if isinstance(p2, Raised):
        raise Violation("text:regenerated_text_rejected", f"{what}: regenerated text does not parse: {str(p2.exc)[:300]!r}; text={text[:400]!r}")
    if p2.tree != p.tree:
        raise Violation("text:tree_changed", f"{what}: tree of the regenerated text differs from the original tree")
    if len(source) % 4 == 0 and source.isascii() and "\r" not in source:
        # the path-based constructor reads the same text from a file (plain ASCII without CR: no decoding or newline
        # translation is involved), so it must give the same profile
        import os
        import tempfile

        fd, path = tempfile.mkstemp(prefix="c10_", suffix=".profile", dir="/dev/shm" if os.path.isdir("/dev/shm") else None)
        try:
            with os.fdopen(fd, "wb") as f:
                f.write(source.encode("ascii"))
            pp = lib(c2profile.C2Profile.from_path, path, allow=(Exception,), what="from_path")
        finally:
            os.unlink(path)
        if isinstance(pp, Raised):
            raise Violation("parse:from_path_rejected", f"{what}: from_path rejected a file that from_text accepts: {str(pp.exc)[:300]!r}; source={source[:300]!r}")
        if pp.tree != p.tree:
            a, b = PL.tokenize(lib(pp.as_text, what="as_text")), src_tokens
            i = next((k for k, (x, y) in enumerate(zip(a, b)) if x != y), min(len(a), len(b)))
            raise Violation("parse:from_path_differs", f"{what}: from_path(file) and from_text(file content) give different profiles: token {i}: file {a[max(0, i - 2):i + 1]} vs text {b[max(0, i - 2):i + 1]}")
    return p


# ------------------------------------------------------------------------------------------ every production once
def coverage_enumerate(tier, shard, nshards):
    def gen():
        yield {"kind": "all_forms"}
        yield {"kind": "amazon"}
        for b in PL.TOP_BLOCKS:
            yield {"kind": "block", "name": b}

    return shard_iter(gen(), shard, nshards)


def coverage_execute(case, stats):
    if case["kind"] == "amazon":
        import os

        path = os.path.join(samples.tests_dir(), "profiles", "amazon.profile")
        source = open(path).read()
        roundtrip(source, what="tests/profiles/amazon.profile")
        stats.note(case, True, classes=["amazon"])
        return
    nodes = PL.every_statement_once()
    if case["kind"] == "block":
        nodes = [n for n in nodes if n[0] == "block" and n[1] == case["name"]]
    source = PL.render(nodes)
    roundtrip(source, what=f"every-statement-once ({case['kind']})")
    forms = PL.forms_of_ast(nodes)
    if case["kind"] == "all_forms":
        missing = PL.statement_forms() - forms
        check(not missing, "harness:coverage", f"full-coverage profile misses {sorted(missing)[:5]}")
        stats.count("statement_forms_exercised", len(forms))
    stats.note(case, True, classes=[case["kind"]])


# ------------------------------------------------------------------------------------------ random reference sentences
def random_strategy():
    return st.fixed_dictionaries({"ast": G.profile_ast(), "ws": G.whitespace})


def random_execute(case, stats):
    nodes = case["ast"]
    source = PL.render(nodes, ws=G.cycle(case["ws"]))
    check(PL.tokenize(source) == PL.tokens_of_ast(nodes), "harness:tokenizer", "tokenizer is not whitespace/comment invariant on this source")
    after_failure = len(source) % 3 == 0
    if after_failure:
        failed_calls()
    # a sibling source that differs only in the amount of whitespace INSIDE its literals is a different profile: parsed
    # first in the same process, it must not influence what this source is parsed to
    twin = PL.render(G.map_literals(nodes, G.respace_literal), ws=G.cycle(case["ws"])) if len(source) % 2 else source
    if twin != source:
        roundtrip(twin, what="whitespace twin")
    roundtrip(source)
    n = G.count_statements(nodes)
    stats.note(case, n >= 3 and G.has_nested_block(nodes), classes=["statements_%s" % ("0-2" if n < 3 else "3-9" if n < 10 else "10+"), "variant" if any(x[0] == "block" and x[2] is not None for x in nodes) else "no_variant", "after_failed_calls" if after_failure else "no_failure_before", "after_whitespace_twin" if twin != source else "no_twin"])


def failed_calls():
    """A rejected source and an unprintable profile (data transform without termination statement) right before the
    real case: what a failed from_text() / as_text() leaves behind must not reach the next profile."""
    from dissect.cobaltstrike import c2profile as cp

    lib(cp.C2Profile.from_text, 'set sleeptime "1234";\nhttp-get { set uri "/broken"; client { metadata {', allow=(Exception,), what="from_text(truncated source)")
    broken = lib(cp.C2Profile, what="C2Profile()")
    lib(broken.set_option, "sleeptime", 1234, what="set_option")
    lib(broken.set_config_block, "http_get", cp.HttpGetBlock(uri="/broken", client=cp.HttpOptionsBlock(metadata=cp.DataTransformBlock(steps=["base64"]))), what="set_config_block")
    lib(broken.as_text, allow=(Exception,), what="as_text(unprintable profile)")


# ------------------------------------------------------------------------------------------ live grammar walk
_LIVE = {}


def live_grammar():
    """(rules by origin, min derivation length per non-terminal, terminal samples) from the live lark grammar."""
    if _LIVE:
        return _LIVE
    import re

    from dissect.cobaltstrike import c2profile

    parser = c2profile.c2profile_parser
    terms = {}
    for t in parser.terminals:
        pat = t.pattern
        if t.name == "STRING":
            terms[t.name] = None
        elif type(pat).__name__ == "PatternStr":
            terms[t.name] = [pat.value]
        else:
            # alternatives of keyword strings, e.g. OPTION
            v = pat.value
            m = re.fullmatch(r"\(\?:(.*)\)", v)
            inner = m.group(1) if m else v
            alts = [a for a in inner.split("|")]
            if all(re.fullmatch(r"[A-Za-z0-9_\-]+", a) for a in alts):
                terms[t.name] = alts
            else:
                terms[t.name] = False  # whitespace / comments etc: never generated
    rules = {}
    for r in parser.rules:
        rules.setdefault(r.origin.name, []).append(r)
    # minimal derivation length (in terminals) per non-terminal; rules using an ungeneratable terminal are unusable
    INF = 10**9
    minlen = {nt: INF for nt in rules}

    def rule_len(r):
        total = 0
        for sym in r.expansion:
            if sym.is_term:
                if terms.get(sym.name) is False or sym.name == "HASH":
                    return INF
                total += 1
            else:
                if minlen.get(sym.name, INF) >= INF:
                    return INF
                total += minlen[sym.name]
        return total

    changed = True
    while changed:
        changed = False
        for nt, rs in rules.items():
            best = min(rule_len(r) for r in rs)
            if best < minlen[nt]:
                minlen[nt] = best
                changed = True
    _LIVE.update(rules=rules, minlen=minlen, terms=terms, rule_len=rule_len, INF=INF, start="start")
    return _LIVE


def live_strategy():
    return st.fixed_dictionaries({"choices": st.lists(st.integers(0, 10**6), min_size=30, max_size=400), "lits": st.lists(G.literal(), min_size=1, max_size=8), "budget": st.integers(10, 150)})


def live_sentence(case):
    g = live_grammar()
    choices = iter(G.cycle(case["choices"]))
    lits = G.cycle(case["lits"])
    out = []
    used = []
    budget = [case["budget"]]

    def expand(nt, depth):
        rs = [r for r in g["rules"][nt] if g["rule_len"](r) < g["INF"]]
        if budget[0] <= 0 or depth > 12:
            m = min(g["rule_len"](r) for r in rs)
            rs = [r for r in rs if g["rule_len"](r) == m]
        r = rs[next(choices) % len(rs)]
        used.append((r.origin.name, r.alias, tuple(s.name for s in r.expansion)))
        for sym in r.expansion:
            if sym.is_term:
                vals = g["terms"].get(sym.name)
                if vals is None:
                    out.append(next(lits))
                else:
                    out.append(vals[next(choices) % len(vals)])
                budget[0] -= 1
            else:
                expand(sym.name, depth + 1)

    expand(g["start"], 0)
    return " ".join(out), used


def live_execute(case, stats):
    source, used = live_sentence(case)
    roundtrip(source, what="live-grammar sentence")
    for u in used:
        if u[1]:
            stats.count("alias_" + str(u[1]))
    stats.note(case, len(source.split()) >= 9 and source.count("{") >= 2, classes=["tokens_%s" % ("<20" if len(source.split()) < 20 else "20+")])


SUBS = [
    Sub("every_statement_once", coverage_execute, enumerate=coverage_enumerate, exhaustive=True),
    Sub("random_profiles", random_execute, strategy=random_strategy, examples={"quick": 480, "thorough": 9600}),
    Sub("live_grammar", live_execute, strategy=live_strategy, examples={"quick": 480, "thorough": 9600}),
]
