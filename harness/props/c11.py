"""C11 - the dictionary view reports exactly what the profile says."""

from hypothesis import strategies as st
from hypothesis.stateful import RuleBasedStateMachine, initialize, rule

from .. import profile_gen as G
from .. import strategies as S
from ..oracle import Raised, check, eq, lib
from ..ref import profile_lang as PL
from ..ref import profile_literal as L
from ..runner import Sub, Violation

PROPERTY = "C11"
LEVEL = "exploration"
RULE = (
    "Reference-language profiles (as in C10) with a model dictionary computed by the generator: key = dotted keyword "
    "path (variant token included, \"default\" dropped), option / keyword+string -> literal text, "
    "header/parameter/strrep -> tuple of literal texts, statements inside the documented list blocks -> (keyword, "
    "bytes...) / bare keyword, bare-keyword lists (BeaconGate) -> keyword. as_dict() must equal the model (keys, "
    "per-key order, nothing else); data-transform blocks outside the documented list paths are checked "
    "metamorphically (number of reported values == number of statements). Builder twin: the same AST built through "
    "the ConfigBlock API (kwargs and method calls) must be indistinguishable in tree, text and dictionary. Stateful: "
    "set_option / set_config_block / in-place change of a nested block (profile.tree) / as_dict / properties interleaved, the view must equal the model after every "
    "modification. Non-trivial: >= 3 statements incl. a list block or a pair; twin with a nested block; history "
    "with a read between two modifications."
)
ASSUMPTIONS = [
    "documented shapes are those asserted in tests/test_c2profile.py and the README; other data-transform blocks only metamorphically",
    "builder twins use canonical literals (value_to_string of the bytes) and no variants (the builder API has none)",
]


def probe_absent(profile, expected, what):
    """Looking a path up that the profile does not contain (by subscript, the access style of the README, by .get and by
    ``in``) never makes the view list it: the view shows what the profile says, before and after."""
    view = lib(lambda: profile.properties, what="properties")
    for path in ("stage.zz_absent", "http-get.zz_absent", "zz_absent"):
        if path in expected:
            continue
        try:
            view[path]
        except KeyError:
            pass
        except Exception as e:  # noqa: BLE001
            raise Violation("dict:absent_lookup", f"{what}: subscripting the view with the absent path {path!r} raised {e!r}")
        view.get(path)
        path in view
    after = lib(lambda: profile.properties, what="properties (after look-ups)")
    if dict(after) != dict(expected) or list(after) != list(expected):
        extra = [k for k in after if k not in expected]
        raise Violation("dict:lookup_changes_view", f"{what}: after looking up absent paths the view lists {extra[:4]!r} (paths the profile does not contain)")
    eq(dict(lib(profile.as_dict, what="as_dict (after look-ups)")), dict(expected), "dict:lookup_changes_view", f"{what}: as_dict() after looking up absent paths")


def as_dict_of(profile):
    d = lib(profile.as_dict, what="as_dict")
    check(isinstance(d, dict), "dict:type", f"as_dict returned {type(d)}")
    return d


def compare_model(d, nodes, what="profile"):
    model, loose = PL.model_dict(nodes)
    got = {k: [tuple(v) if isinstance(v, (list, tuple)) else v for v in vals] for k, vals in d.items()}
    loose_prefixes = tuple(loose)
    strict_got = {k: v for k, v in got.items() if not any(k == p or k.startswith(p + ".") for p in loose_prefixes)}
    for k, want in model.items():
        if k not in strict_got:
            raise Violation("dict:missing_key", f"{what}: key {k!r} missing; expected {want!r}; keys={sorted(got)[:12]}")
        if strict_got[k] != want:
            raise Violation("dict:wrong_values", f"{what}: {k!r}: got {strict_got[k]!r}, expected {want!r}")
    extra = set(strict_got) - set(model)
    if extra:
        raise Violation("dict:unexpected_key", f"{what}: unexpected keys {sorted(extra)[:5]} -> {[strict_got[k] for k in sorted(extra)[:2]]}")
    # metamorphic check for data-transform blocks outside the documented list paths
    for p, nstmts in loose.items():
        n = sum(len(v) for k, v in got.items() if k == p or k.startswith(p + "."))
        if n != nstmts:
            raise Violation("dict:loose_count", f"{what}: block {p!r} has {nstmts} statements but {n} reported values")
    return model, loose


# ------------------------------------------------------------------------------------------ model check on parsed text
def model_strategy():
    return st.fixed_dictionaries({"ast": G.profile_ast(max_nodes=8), "ws": G.whitespace})


def model_execute(case, stats):
    from dissect.cobaltstrike import c2profile

    nodes = case["ast"]
    source = PL.render(nodes, ws=G.cycle(case["ws"]))
    p = lib(c2profile.C2Profile.from_text, source, what="from_text")
    if len(source) % 2:
        lib(p.as_text, what="as_text before as_dict")  # regenerating text first must not change the view
    d = as_dict_of(p)
    model, loose = compare_model(d, nodes)
    eq(as_dict_of(p), d, "dict:not_repeatable", "second as_dict() call")
    eq(lib(lambda: p.properties), d, "dict:properties_alias", "properties == as_dict()")
    probe_absent(p, d, "parsed profile")
    n = G.count_statements(nodes)
    has_list = any(k in PL.LIST_PATHS for k in model)
    has_pair = any(isinstance(v, tuple) for vals in model.values() for v in vals)
    stats.note(
        case,
        n >= 3 and (has_list or has_pair),
        classes=["list_block" if has_list else "no_list_block", "pair" if has_pair else "no_pair", "variant" if any(x[0] == "block" and x[2] is not None for x in nodes) else "no_variant", "loose_transform" if loose else "no_loose"],
    )


# ------------------------------------------------------------------------------------------ builder twin
TOP_CLASS = {
    "http-config": "HttpConfigBlock", "http-stager": "HttpStagerBlock", "http-get": "HttpGetBlock", "http-post": "HttpPostBlock", "stage": "StageBlock",
    "process-inject": "ProcessInjectBlock", "post-ex": "PostExBlock", "dns-beacon": "DnsBeaconBlock", "http-beacon": "HttpBeaconBlock",
    "https-certificate": "ConfigBlock", "code-signer": "ConfigBlock",
}  # fmt: skip
SUB_CLASS = {"http_options": "HttpOptionsBlock", "http_client_options": "HttpOptionsBlock", "stage_transform": "StageTransformBlock", "execute": "ExecuteOptionsBlock", "beacon_gate": "BeaconGateBlock"}


def twin_value(b, as_str):
    if as_str and b and all(c in S.token_chars.encode() + b"/._- " for c in b):
        return b.decode()
    return b


def canon(c2profile, b):
    return lib(c2profile.value_to_string, b, what="value_to_string")


def twin_nodes(c2profile, nodes):
    """Replace the byte-valued placeholders of a twin AST by canonical literals (for rendering / model)."""

    def conv(n):
        k = n[0]
        if k in ("opt", "set", "kw1"):
            return [k, n[1], canon(c2profile, n[2])]
        if k == "kw2":
            return [k, n[1], canon(c2profile, n[2]), canon(c2profile, n[3])]
        if k == "kw0":
            return list(n)
        if k == "block":
            return ["block", n[1], None, [conv(c) for c in n[3]]]
        if k == "transform":
            return ["transform", n[1], [[conv(s) for s in dt] for dt in n[2]]]
        raise ValueError(n)

    return [conv(n) for n in nodes]


SIBLINGS = {"transform-x86": "transform-x64", "transform-x64": "transform-x86", "client": "server"}


def add_shared_siblings(nodes):
    """Duplicate some nested blocks under their sibling name (transform-x86/x64, http-stager client/server): the builder
    twin then attaches ONE block object in both places, as a user re-using a block would."""

    def walk(n, parent):
        if n[0] != "block":
            return n
        children = [walk(c, n[1]) for c in n[3]]
        extra = []
        for c in children:
            if c[0] == "block" and c[1] in SIBLINGS and (c[1] != "client" or n[1] == "http-stager"):
                sib = SIBLINGS[c[1]]
                if not any(x[0] == "block" and x[1] == sib for x in children):
                    extra.append(["block", sib, None, c[3]])
                    break
        return ["block", n[1], n[2], children + extra]

    return [walk(n, None) for n in nodes]


_BLOCK_CACHE = {}


def build_block(c2profile, clsname, specname, children, use_kwargs, as_str):
    from .. import jsonx

    key = (clsname, specname, jsonx.dumps(children), use_kwargs, as_str)
    if specname in ("stage_transform", "http_options") and key in _BLOCK_CACHE:
        return _BLOCK_CACHE[key]  # the very same object is attached a second time
    blk = _build_block(c2profile, clsname, specname, children, use_kwargs, as_str)
    _BLOCK_CACHE[key] = blk
    return blk


def _build_block(c2profile, clsname, specname, children, use_kwargs, as_str):
    cls = getattr(c2profile, clsname)
    specs = {(s[0], s[1]): s for s in PL.BLOCKS[specname]}

    def child_arg(c):
        k = c[0]
        alias = PL.alias_of(specname, k, c[1])
        if k in ("set", "kw1"):
            return alias, "set_option", twin_value(c[2], as_str)
        if k == "kw2":
            return alias, "_pair", [(twin_value(c[2], as_str), twin_value(c[3], as_str))]
        if k == "kw0":
            return alias, "_enable", True
        if k == "block":
            sub = specs[("block", c[1])][2]
            return alias, "set_config_block", build_block(c2profile, SUB_CLASS[sub], sub, c[3], use_kwargs, as_str)
        if k == "transform":
            steps = []
            for s in c[2][0]:
                steps.append(s[1] if s[0] == "kw0" else (s[1], twin_value(s[2], False)))
            return alias, "set_config_block", c2profile.DataTransformBlock(steps=steps)
        raise ValueError(c)

    args = [child_arg(c) for c in children]
    names = [a[0] for a in args]
    if use_kwargs and len(set(names)) == len(names) and clsname != "ConfigBlock":
        return lib(cls, what=f"{clsname}(**kwargs)", **{a[0]: a[2] for a in args})
    b = lib(cls, what=f"{clsname}()")
    for alias, method, value in args:
        if method == "set_option":
            lib(b.set_option, alias, value, what="set_option")
        elif method == "_pair":
            lib(b._pair, alias, value, what="_pair")
        elif method == "_enable":
            lib(b._enable, alias, True, what="_enable")
        else:
            lib(b.set_config_block, alias, value, what="set_config_block")
    return b


def build_profile(c2profile, nodes, use_kwargs, as_str):
    p = lib(c2profile.C2Profile, what="C2Profile()")
    for n in nodes:
        if n[0] == "opt":
            lib(p.set_option, n[1], twin_value(n[2], as_str), what="C2Profile.set_option")
        else:
            blk = build_block(c2profile, TOP_CLASS[n[1]], n[1], n[3], use_kwargs, as_str)
            lib(p.set_config_block, n[1].replace("-", "_"), blk, what="C2Profile.set_config_block")
    return p


_bytes_lit = st.one_of(st.text(alphabet=S.token_chars + "/._- ", max_size=12).map(lambda s: s.encode()), S.binary(0, 10))


def twin_ast():
    # byte-valued "literals"; exactly one data transform per transform block; no variants
    def fix(nodes):
        def f(n):
            if n[0] == "block":
                return ["block", n[1], None, [f(c) for c in n[3]]]
            if n[0] == "transform":
                dts = n[2][:1] or [[["kw0", "print"]]]
                return ["transform", n[1], dts]
            return n

        return [f(n) for n in nodes]

    return G.profile_ast(variants=False, max_nodes=6, lit=_bytes_lit).map(fix)


def twin_strategy():
    return st.fixed_dictionaries({"ast": twin_ast(), "use_kwargs": st.booleans(), "as_str": st.booleans(), "share": st.booleans()})


def twin_execute(case, stats):
    from dissect.cobaltstrike import c2profile

    nodes = add_shared_siblings(case["ast"]) if case.get("share", True) else case["ast"]
    _BLOCK_CACHE.clear()
    built = build_profile(c2profile, nodes, case["use_kwargs"], case["as_str"])
    text_nodes = twin_nodes(c2profile, nodes)
    source = PL.render(text_nodes)
    parsed = lib(c2profile.C2Profile.from_text, source, what="from_text")
    if built.tree != parsed.tree:
        raise Violation("twin:tree_differs", f"builder tree differs from parsed tree for source {source[:500]!r}\n built={str(built.tree)[:600]}\nparsed={str(parsed.tree)[:600]}")
    bt = lib(built.as_text, allow=(Exception,), what="as_text(built)")
    if isinstance(bt, Raised):
        raise Violation("twin:builder_not_printable", f"profile built through the API cannot be printed: {str(bt.exc)[:300]}; source={source[:300]!r}")
    eq(bt, lib(parsed.as_text), "twin:text_differs", "as_text of builder twin vs parsed")
    bd = as_dict_of(built)
    eq(bd, as_dict_of(parsed), "twin:dict_differs", "as_dict of builder twin vs parsed")
    compare_model(bd, text_nodes, what="builder twin")
    stats.note(case, G.has_nested_block(nodes), classes=["shared_block_object" if nodes != case["ast"] else "fresh_blocks", "kwargs" if case["use_kwargs"] else "methods", "statements_%s" % ("0-2" if G.count_statements(nodes) < 3 else "3+")])


# ------------------------------------------------------------------------------------------ stateful: modifications vs view
BLOCK_POOL = [
    ["block", "http-get", None, [["set", "uri", b"/a"], ["block", "client", None, [["kw2", "header", b"A", b"B"], ["transform", "metadata", [[["kw0", "base64"], ["kw1", "prepend", b"x\x00"], ["kw1", "header", b"Cookie"]]]]]]]],
    ["block", "http-post", None, [["set", "uri", b"/s"], ["block", "client", None, [["transform", "id", [[["kw0", "netbios"], ["kw1", "parameter", b"id"]]]], ["transform", "output", [[["kw0", "mask"], ["kw0", "print"]]]]]]]],
    ["block", "stage", None, [["set", "cleanup", b"true"], ["block", "beacon_gate", None, [["kw0", "Comms"], ["kw0", "VirtualProtectEx"]]]]],
    ["block", "process-inject", None, [["set", "min_alloc", b"4096"], ["block", "execute", None, [["kw1", "CreateThread", b"ntdll!RtlUserThreadStart"], ["kw0", "SetThreadContext"]]], ["block", "transform-x86", None, [["kw1", "prepend", b"\x90\x90"]]]]],
    ["block", "dns-beacon", None, [["set", "get_A", b"a."], ["set", "maxdns", b"255"]]],
    ["block", "http-config", None, [["kw2", "header", b"Server", b"nginx"], ["set", "trust_x_forwarded_for", b"true"]]],
]


class DictState:
    def __init__(self):
        from dissect.cobaltstrike import c2profile

        self.c2profile = c2profile
        self.profile = lib(c2profile.C2Profile, what="C2Profile()")
        self.nodes = []
        self.reads = 0
        self.read_between = False
        self.mods_since_read = 0

    def apply(self, op):
        c2profile = self.c2profile
        kind = op[0]
        if kind == "set_option":
            lib(self.profile.set_option, op[1], op[2], what="set_option")
            self.nodes.append(["opt", op[1], op[2]])
            self._modified()
        elif kind == "add_block":
            n = BLOCK_POOL[op[1] % len(BLOCK_POOL)]
            blk = build_block(c2profile, TOP_CLASS[n[1]], n[1], n[3], op[2], False)
            lib(self.profile.set_config_block, n[1].replace("-", "_"), blk, what="set_config_block")
            self.nodes.append(n)
            self._modified()
        elif kind == "nested_set":
            # modify an already attached block in place, below the top level (profile.tree is the documented AST)
            from lark import Token, Tree

            blocks = [i for i, n in enumerate(self.nodes) if n[0] == "block"]
            if not blocks:
                return
            i = blocks[op[1] % len(blocks)]
            n = self.nodes[i]
            sets = [sp for sp in PL.BLOCKS[n[1]] if sp[0] == "set"]
            if not sets:
                return
            sp = sets[op[2] % len(sets)]
            lit = canon(c2profile, op[3])
            node = self.profile.tree.children[i]
            check(isinstance(node, Tree) and node.data == n[1].replace("-", "_"), "harness:tree_layout", f"top-level child {i} is {getattr(node, 'data', node)!r}")
            node.children.append(Tree(PL.alias_of(n[1], "set", sp[1]), [Tree("string", [Token("STRING", lit)])]))
            self.nodes[i] = ["block", n[1], None, list(n[3]) + [["set", sp[1], op[3]]]]
            self._modified()
        elif kind == "siblings":
            # profiles parsed from the same text are separate objects: modifying one leaves the others, and later
            # parses of that text, as they were
            text = lib(self.profile.as_text, what="as_text")
            a = lib(c2profile.C2Profile.from_text, text, what="from_text")
            b = lib(c2profile.C2Profile.from_text, text, what="from_text (same text again)")
            before_d, before_t = dict(lib(b.as_dict, what="as_dict")), lib(b.as_text, what="as_text")
            lib(a.set_option, "jitter", "97", what="set_option on the first sibling")
            if op[1]:
                lib(a.set_config_block, "stage", c2profile.StageBlock(userwx="true"), what="set_config_block on the first sibling")
            after_d, after_t = dict(lib(b.as_dict, what="as_dict")), lib(b.as_text, what="as_text")
            third = lib(c2profile.C2Profile.from_text, text, what="from_text (after the modification)")
            check(after_d == before_d and after_t == before_t, "siblings:shared_state", lambda: f"modifying one profile parsed from a text changed another profile parsed from the same text: {sorted(set(after_d) ^ set(before_d))}")
            check(dict(lib(third.as_dict)) == before_d, "siblings:later_parse_differs", "a profile parsed after a sibling was modified differs from one parsed before")
            check("97" in (lib(a.as_dict).get("jitter") or []), "siblings:modification_lost", "the modified sibling does not show its own modification")
        elif kind in ("as_dict", "properties"):
            d = lib(self.profile.as_dict if kind == "as_dict" else (lambda: self.profile.properties), what=kind)
            compare_model(d, twin_nodes(c2profile, self.nodes), what=f"view after {len(self.nodes)} modifications")
            probe_absent(self.profile, dict(d), f"profile after {len(self.nodes)} modifications")
            self.reads += 1
            self.mods_since_read = 0

    def _modified(self):
        if self.reads:
            self.mods_since_read += 1
            if self.mods_since_read >= 1:
                self.read_between = True


def dict_machine(stats, rec):
    class DictMachine(RuleBasedStateMachine):
        def __init__(self):
            super().__init__()
            self.ops = []
            self.st = DictState()

        def case(self):
            return {"ops": list(self.ops)}

        def do(self, op):
            self.ops.append(op)
            rec.step(lambda: self.st.apply(op), self.case, stats)

        @rule(name=st.sampled_from(["jitter", "sleeptime", "useragent", "pipename", "jitter"]), value=_bytes_lit)
        def set_option(self, name, value):
            self.do(("set_option", name, value))

        @rule(i=st.integers(0, len(BLOCK_POOL) - 1), kwargs=st.booleans())
        def add_block(self, i, kwargs):
            self.do(("add_block", i, kwargs))

        @rule(i=st.integers(0, 7), j=st.integers(0, 7), value=_bytes_lit)
        def nested_set(self, i, j, value):
            self.do(("nested_set", i, j, value))

        @rule(kind=st.sampled_from(["as_dict", "properties"]))
        def read(self, kind):
            self.do((kind,))

        @rule(block=st.booleans())
        def siblings(self, block):
            self.do(("siblings", block))

        def teardown(self):
            stats.evaluations += 1
            # final read always
            rec.step(lambda: self.st.apply(("as_dict",)), self.case, stats)
            stats.note(self.case(), self.st.read_between, classes=["read_between_modifications" if self.st.read_between else "no_read_between"])

    return DictMachine


def dict_execute(case, stats):
    s = DictState()
    for op in case["ops"]:
        s.apply(tuple(op))
    s.apply(("as_dict",))
    stats.note(case, s.read_between, classes=["replay"])


SUBS = [
    Sub("dict_model", model_execute, strategy=model_strategy, examples={"quick": 320, "thorough": 6400}),
    Sub("builder_twin", twin_execute, strategy=twin_strategy, examples={"quick": 240, "thorough": 4800}),
    Sub("view_tracks_modifications", dict_execute, machine=dict_machine, examples={"quick": 160, "thorough": 3200}, steps=8),
]
