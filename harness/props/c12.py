"""C12 - profile string literals encode and decode bytes losslessly and safely."""

import itertools

from hypothesis import strategies as st

from .. import strategies as S
from ..oracle import Raised, check, eq, lib
from ..ref import profile_literal as L
from ..runner import Sub, Violation, shard_iter

PROPERTY = "C12"
LEVEL = "exploration"
RULE = (
    "Exhaustive: every byte string of length <= 2 over 0x00-0xff (65 793) and every string of length <= 4 over the "
    "syntax alphabet {\" ' \\ x u LF ; { } #} (11 111), each converted with value_to_string, read back with "
    "string_token_to_bytes, decoded with an independent reference escape decoder, lexed (must be exactly one STRING "
    "token) and embedded through the parser in batches of 200 (option value, both positions of a header pair, "
    "prepend/append arguments, each followed by a sentinel statement) and read back through as_dict (quick tier: the "
    "parser embedding is limited to 1-byte strings and 2-byte strings containing a syntax-relevant byte; all of "
    "them in the thorough tier). Random byte "
    "strings up to 64 bytes the same way. Escape grammar: sequences <= 4 of plain characters, \\xHH, \\u00HH, \\n \\r "
    "\\t \\\\ \\\" \\' decoded against the reference. Non-trivial: a string containing a quote, backslash or newline byte "
    "(or an escape sequence). Distinct by content."
)
ASSUMPTIONS = [
    "\\uHHHH is only exercised as \\u00HH (the documented byte-valued form)",
    "option values and header pairs are reported by as_dict as literal text; transform arguments as decoded bytes",
]

SYNTAX = b"\"'\\xu\n;{}#"
BATCH = 200


def literal_of(b):
    from dissect.cobaltstrike import c2profile

    if b and all(c < 0x80 for c in b):
        # the text form of the same content converted first must not influence the conversion of the byte string
        lib(c2profile.value_to_string, b.decode("ascii"), what="value_to_string(str)")
    lit = lib(c2profile.value_to_string, b, what="value_to_string")
    check(isinstance(lit, str), "literal:type", f"value_to_string({b!r}) -> {lit!r}")
    return lit


def check_direct(b, lit):
    from lark import Token

    from dissect.cobaltstrike import c2profile

    back = lib(c2profile.string_token_to_bytes, Token("STRING", lit), what="string_token_to_bytes")
    if back != b:
        raise Violation("literal:roundtrip", f"bytes {b!r} -> literal {lit!r} -> {back!r}")
    check(L.well_terminated(lit), "literal:not_one_token", f"literal {lit!r} for {b!r} is not a single well-terminated string")
    try:
        ref = L.decode(lit[1:-1])
    except Exception as e:
        raise Violation("literal:undocumented_escape", f"literal {lit!r} for {b!r}: reference decoder: {e!r}")
    if ref != b:
        raise Violation("literal:meaning", f"literal {lit!r} means {ref!r} under the documented escapes, expected {b!r}")


def check_lexer(b, lit):
    from dissect.cobaltstrike import c2profile

    text = "set useragent " + lit + ';\nset jitter "7";'
    toks = lib(lambda: [(t.type, str(t)) for t in c2profile.c2profile_parser.lex(text)], what="lexer")
    strings = [v for ty, v in toks if ty == "STRING"]
    if strings != [lit, '"7"'] or len(toks) != 8:
        raise Violation("literal:lexed_wrong", f"bytes {b!r}: literal {lit!r} lexed as {toks!r}")


def check_batch(items):
    """items: [(bytes, literal)] - embed all of them in one profile and read them back through as_dict."""
    from dissect.cobaltstrike import c2profile

    parts = []
    for i, (b, lit) in enumerate(items):
        parts.append(
            f"set useragent {lit};\nset sleeptime \"S{i}\";\n"
            f"http-get {{ client {{ header {lit} {lit}; metadata {{ prepend {lit}; append {lit}; print; }} }} }}\n"
            f"set jitter \"J{i}\";\n"
        )
    text = "".join(parts)

    def first_bad(pred):
        for i in range(len(items)):
            if not pred(i):
                return i
        return None

    r = lib(c2profile.C2Profile.from_text, text, allow=(Exception,), what="from_text")
    if isinstance(r, Raised):
        # bisect: which literal breaks the parse?
        for b, lit in items:
            one = lib(c2profile.C2Profile.from_text, f"set useragent {lit};\nset jitter \"7\";", allow=(Exception,))
            if isinstance(one, Raised):
                raise Violation("literal:breaks_parser", f"bytes {b!r}: literal {lit!r} does not parse inside a statement: {one.exc!r}"[:600])
        raise Violation("literal:breaks_parser_in_batch", f"batch does not parse: {r.exc!r}"[:600])
    d = lib(r.as_dict, what="as_dict")
    n = len(items)
    want_ua = [lit[1:-1] for _, lit in items]
    bad = None
    if d.get("useragent") != want_ua:
        bad = first_bad(lambda i: i < len(d.get("useragent", [])) and d["useragent"][i] == want_ua[i])
        raise Violation("literal:option_value", f"bytes {items[bad][0]!r}: literal {items[bad][1]!r} reported as option value {d.get('useragent', [])[bad:bad + 1]!r}")
    if d.get("sleeptime") != [f"S{i}" for i in range(n)] or d.get("jitter") != [f"J{i}" for i in range(n)]:
        raise Violation("literal:sentinel_lost", f"sentinel statements changed: {d.get('sleeptime')[:5]}... (literal injected or swallowed syntax)")
    hp = d.get("http-get.client.header", [])
    want_hp = [(lit[1:-1], lit[1:-1]) for _, lit in items]
    if [tuple(x) for x in hp] != want_hp:
        bad = first_bad(lambda i: i < len(hp) and tuple(hp[i]) == want_hp[i])
        raise Violation("literal:pair_value", f"bytes {items[bad][0]!r}: header pair reported as {hp[bad:bad + 1]!r}")
    md = d.get("http-get.client.metadata", [])
    want_md = []
    for b, _ in items:
        want_md += [("prepend", b), ("append", b), "print"]
    if md != want_md:
        bad = first_bad(lambda i: md[3 * i : 3 * i + 3] == want_md[3 * i : 3 * i + 3])
        raise Violation("literal:transform_argument", f"bytes {items[bad][0]!r}: transform arguments reported as {md[3 * bad:3 * bad + 3]!r}")
    extra = set(d) - {"useragent", "sleeptime", "jitter", "http-get.client.header", "http-get.client.metadata"}
    check(not extra, "literal:injected_keys", f"unexpected keys {sorted(extra)[:5]} (syntax injected by a literal)")
    # the same literals once more after the library has written the statements out itself: every literal is printed as the
    # token it is and read back to the same bytes
    text2 = lib(r.as_text, what="as_text")
    r2 = lib(c2profile.C2Profile.from_text, text2, allow=(Exception,), what="from_text(as_text())")
    if isinstance(r2, Raised):
        raise Violation("literal:breaks_parser_after_as_text", f"the printed batch does not parse: {r2.exc!r}"[:600])
    d2 = lib(r2.as_dict, what="as_dict")
    if d2 != d:
        for k in d:
            if d2.get(k) != d[k]:
                a, b_ = d[k], d2.get(k) or []
                i = next((i for i in range(len(a)) if i >= len(b_) or a[i] != b_[i]), None)
                raise Violation("literal:changed_by_as_text", f"{k}[{i}]: parsed {a[i:i + 1]!r}, after as_text() and re-parsing {b_[i:i + 1] if i is not None else b_!r}"[:800])
        raise Violation("literal:changed_by_as_text", f"keys differ after as_text(): {sorted(set(d) ^ set(d2))[:5]}")


def check_builder(items):
    """items: [(bytes, literal)] - the same byte strings given to the builder API (header / parameter names and values,
    transform arguments, an option), written out by as_text() and read back through the parser."""
    from dissect.cobaltstrike import c2profile

    bs = [b for b, _ in items]
    inner = [lit[1:-1] for _, lit in items]
    steps = []
    for b in bs:
        steps += [("prepend", b), ("append", b)]
    prof = lib(c2profile.C2Profile, what="C2Profile()")
    lib(prof.set_option, "useragent", bs[0], what="set_option(bytes)")
    client = lib(lambda: c2profile.HttpOptionsBlock(header=[(b, b) for b in bs], parameter=[(b, b) for b in bs], metadata=c2profile.DataTransformBlock(steps=steps + ["print"])), what="HttpOptionsBlock(header=..., parameter=..., metadata=...)")
    lib(prof.set_config_block, "http_get", c2profile.HttpGetBlock(client=client), what="set_config_block")
    text = lib(prof.as_text, what="as_text (builder)")
    r = lib(c2profile.C2Profile.from_text, text, allow=(Exception,), what="from_text(builder text)")
    if isinstance(r, Raised):
        raise Violation("literal:builder_text_rejected", f"text of a builder-made profile does not parse: {r.exc!r}; bytes {bs[:3]!r}..."[:600])
    d = lib(r.as_dict, what="as_dict")
    want = {"useragent": [inner[0]], "http-get.client.header": [(x, x) for x in inner], "http-get.client.parameter": [(x, x) for x in inner], "http-get.client.metadata": [(k, b) for b in bs for k in ("prepend", "append")] + ["print"]}
    for k, w in want.items():
        g = [tuple(x) if isinstance(x, list) else x for x in d.get(k, [])]
        if g != w:
            i = next((i for i in range(len(w)) if i >= len(g) or g[i] != w[i]), None)
            raise Violation("literal:builder_roundtrip", f"{k}[{i}]: the builder was given {w[i] if i is not None else w!r}, the printed profile says {g[i:i + 1] if i is not None else g!r}"[:800])
    extra = set(d) - set(want)
    check(not extra, "literal:injected_keys", f"unexpected keys {sorted(extra)[:5]} in a builder-made profile (syntax injected by a literal)")


def nontrivial(b):
    return any(c in b for c in b"\"\\\n'")


# ------------------------------------------------------------------------------------------ exhaustive
def enum_cases(tier, shard, nshards):
    def gen():
        # all byte strings of length <= 2 : one case per first byte (257 strings each) + the empty string
        yield {"kind": "bytes2", "first": None, "tier": tier}
        for a in range(256):
            yield {"kind": "bytes2", "first": a, "tier": tier}
        # all strings of length <= 4 over the syntax alphabet: one case per 2-char prefix
        yield {"kind": "syntax", "prefix": b""}
        for a in SYNTAX:
            yield {"kind": "syntax", "prefix": bytes([a])}
            for b2 in SYNTAX:
                yield {"kind": "syntax", "prefix": bytes([a, b2])}

    return shard_iter(gen(), shard, nshards)


def enum_execute(case, stats):
    if case["kind"] == "bytes2":
        if case["first"] is None:
            strings = [b""]
        else:
            a = case["first"]
            strings = [bytes([a])] + [bytes([a, b2]) for b2 in range(256)]
    else:
        p = case["prefix"]
        if len(p) < 2:
            strings = [p] if p or True else []
            strings = [p]
        else:
            strings = [p] + [p + bytes(t) for n in (1, 2) for t in itertools.product(SYNTAX, repeat=n)]
    items = []
    for b in strings:
        lit = literal_of(b)
        check_direct(b, lit)
        check_lexer(b, lit)
        items.append((b, lit))
    embed = items
    if case["kind"] == "bytes2" and case.get("tier") != "thorough":
        # quick tier: the parser embedding covers every 1-byte string and every 2-byte string that contains a
        # syntax-relevant byte; value_to_string / string_token_to_bytes / lexer checks above cover all 65 793
        keep = set(SYNTAX) | {0x00, 0xFF, 0x0D, 0x09, 0x20}
        embed = [(b, l) for b, l in items if len(b) < 2 or b[0] in keep or b[1] in keep]
    for i in range(0, len(embed), BATCH):
        check_batch(embed[i : i + BATCH])
        check_builder(embed[i : i + BATCH])
    stats.count("strings_through_parser", len(embed))
    stats.count("strings", len(strings))
    stats.count("nontrivial_strings", sum(1 for b in strings if nontrivial(b)))
    stats.note(case, any(nontrivial(b) for b in strings), classes=[case["kind"]])


# ------------------------------------------------------------------------------------------ random strings
def random_strategy():
    syn = st.lists(st.sampled_from(list(SYNTAX) + [0x00, 0xFF, 0x20, 0x41]), max_size=12).map(bytes)
    return st.fixed_dictionaries({"strings": st.lists(st.one_of(S.binary(0, 64), syn, st.binary(max_size=64)), min_size=1, max_size=20)})


def random_execute(case, stats):
    items = []
    for b in case["strings"]:
        lit = literal_of(b)
        check_direct(b, lit)
        check_lexer(b, lit)
        items.append((b, lit))
    check_batch(items)
    check_builder(items)
    stats.note(case, any(nontrivial(b) for b in case["strings"]), classes=["batch%d" % min(len(items) // 5 * 5, 20)])


# ------------------------------------------------------------------------------------------ escape grammar
PLAIN = [c for c in (list(range(0x20, 0x7F)) + [0xA0, 0xE9, 0xFF]) if chr(c) not in '"\\']
HH = [0x00, 0x01, 0x09, 0x0A, 0x22, 0x27, 0x41, 0x5C, 0x7F, 0x80, 0xAB, 0xFF]


def escapes_strategy():
    part = st.one_of(
        st.sampled_from(PLAIN).map(lambda c: (chr(c), bytes([c]))),
        st.tuples(st.sampled_from(HH), st.booleans()).map(lambda t: (("\\x%02X" if t[1] else "\\x%02x") % t[0], bytes([t[0]]))),
        st.tuples(st.sampled_from(HH), st.booleans()).map(lambda t: (("\\u00%02X" if t[1] else "\\u00%02x") % t[0], bytes([t[0]]))),
        st.sampled_from([("\\n", b"\n"), ("\\r", b"\r"), ("\\t", b"\t"), ("\\\\", b"\\"), ('\\"', b'"'), ("\\'", b"'")]),
    )
    return st.fixed_dictionaries({"parts": st.lists(part, max_size=4)})


def escapes_execute(case, stats):
    from lark import Token

    from dissect.cobaltstrike import c2profile

    inner = "".join(p[0] for p in case["parts"])
    want = b"".join(p[1] for p in case["parts"])
    lit = '"' + inner + '"'
    eq(L.decode(inner), want, "harness:reference_decoder", "reference decoder vs construction")
    got = lib(c2profile.string_token_to_bytes, Token("STRING", lit), what="string_token_to_bytes")
    if got != want:
        raise Violation("escape:decode", f"literal {lit!r} decoded to {got!r}, documented value {want!r}")
    prof = lib(c2profile.C2Profile.from_text, f"http-post {{ client {{ output {{ prepend {lit}; print; }} }} }}\nset jitter \"7\";", what="from_text")
    d = lib(prof.as_dict)
    eq(d.get("http-post.client.output"), [("prepend", want), "print"], "escape:through_parser", f"literal {lit!r} as transform argument")
    eq(d.get("jitter"), ["7"], "escape:sentinel", "sentinel after the literal")
    stats.note(case, any(p[0].startswith("\\") for p in case["parts"]), classes=["parts%d" % len(case["parts"])])


_HEXCH = "0123456789abcdefABCDEF"


def hexsp_enumerate(tier, shard, nshards):
    return shard_iter(({"form": f, "hi": h} for f in ("x", "u") for h in _HEXCH), shard, nshards)


def hexsp_execute(case, stats):
    """Every spelling of the two significant hex digits (22 x 22, either letter case, mixed) of \\xHH and \\u00HH,
    alone and between other characters: direct decoding and through the parser."""
    from lark import Token

    from dissect.cobaltstrike import c2profile

    items = []
    for lo in _HEXCH:
        hh = case["hi"] + lo
        esc = ("\\x" if case["form"] == "x" else "\\u00") + hh
        val = bytes([int(hh, 16)])
        for pre, post, bpre, bpost in (("", "", b"", b""), ("<", ">", b"<", b">"), ("\\\\", "0", b"\\", b"0")):
            inner = pre + esc + post
            want = bpre + val + bpost
            eq(L.decode(inner), want, "harness:reference_decoder", f"reference decoder on {inner!r}")
            got = lib(c2profile.string_token_to_bytes, Token("STRING", '"' + inner + '"'), what="string_token_to_bytes")
            if got != want:
                raise Violation("escape:decode", f"literal {inner!r} decoded to {got!r}, documented value {want!r}")
            items.append((want, '"' + inner + '"'))
    text = "http-post { client { output { " + " ".join(f"prepend {lit};" for _, lit in items) + " print; } } }"
    prof = lib(c2profile.C2Profile.from_text, text, what="from_text")
    d = lib(prof.as_dict, what="as_dict")
    eq(d.get("http-post.client.output"), [("prepend", b) for b, _ in items] + ["print"], "escape:through_parser", f"all spellings \\{case['form']}..{case['hi']}? as transform arguments")
    stats.count("spellings", len(items))
    stats.note(case, True, classes=["hex_spelling_" + case["form"]])


def long_enumerate(tier, shard, nshards):
    return shard_iter(({"size": n, "kind": k} for n in (4096, 65535, 65536, 70001) for k in ("random", "syntax")), shard, nshards)


def long_execute(case, stats):
    """Very long literals (up to 70 000 bytes): direct round trip, lexer, parser."""
    import random as _r

    rnd = _r.Random(case["size"])
    b = rnd.randbytes(case["size"]) if case["kind"] == "random" else bytes(rnd.choice(SYNTAX) for _ in range(case["size"]))
    lit = literal_of(b)
    check_direct(b, lit)
    check_lexer(b, lit)
    check_batch([(b, lit)])
    check_builder([(b, lit)])
    stats.note(case, True, classes=["long_literal"])


SUBS = [
    Sub("hex_spellings", hexsp_execute, enumerate=hexsp_enumerate, exhaustive=True),
    Sub("long_literals", long_execute, enumerate=long_enumerate, exhaustive=True),
    Sub("exhaustive", enum_execute, enumerate=enum_cases, exhaustive=True),
    Sub("random", random_execute, strategy=random_strategy, examples={"quick": 320, "thorough": 8000}),
    Sub("escapes", escapes_execute, strategy=escapes_strategy, examples={"quick": 640, "thorough": 16000}),
]
