"""C13 - a profile generated from a beacon configuration is valid and faithful."""

import re
import struct

from hypothesis import strategies as st

from .. import keys
from .. import strategies as S
from ..oracle import Raised, check, eq, lib
from ..ref import profile_lang as PL
from ..ref import profile_literal as L
from ..ref import programs as P
from ..ref import tlv
from ..runner import Sub, Violation

PROPERTY = "C13"
LEVEL = "exploration"
RULE = (
    "Well-formed configurations built with the reference encoders: a random subset and order of the settings "
    "from_beacon_config understands (sleeptime, jitter, user agent, domains/URIs, verbs, submit URI, get/post/recover "
    "programs with arbitrary byte arguments and static headers/parameters, spawnto, process-inject permissions / "
    "min_alloc / transforms / execute list / allocator, DNS options, stage options, BeaconGate vectors, frame headers), "
    "text values over printable ASCII incl. quotes and backslashes. Oracle: from_text(profile.as_text()) succeeds, "
    "contains no empty block, and its dictionary states the generated values (text values: literal text or its "
    "decoded form must reproduce the original; transform arguments byte-exact; server output in profile order = "
    "reverse of the recover program; BeaconGate as expanded API set). Non-trivial: a transform argument with a "
    "non-printable / quote / backslash byte, an individual BeaconGate API, or an execute entry with offset."
)
ASSUMPTIONS = [
    "text values: either the literal text or its escape-decoded form may reproduce the original value",
    "server output steps are expected in profile order (the reverse of the stored recover program, print last)",
    "GET programs build metadata only, POST programs build id and output (the documented list blocks)",
]

SHORT, INT, PTR = 1, 2, 3
printable_text = st.text(alphabet=S.printable, max_size=24)
safe_text = st.text(alphabet=S.token_chars + "/._-:() ;=", min_size=1, max_size=24)
text_value = st.one_of(safe_text, printable_text.filter(lambda s: s.strip() == s and s != ""), st.sampled_from(["%windir%\\syswow64\\rundll32.exe", 'say "hi"', "it's", "a\\", '\\"', "tab\\t", "#;{}"]))


def cfg_strategy():
    return st.fixed_dictionaries(
        {
            "include": st.lists(st.booleans(), min_size=40, max_size=40),
            "order": st.integers(0, 2**32 - 1),
            "sleeptime": S.u32,
            "jitter": st.integers(0, 99),
            "useragent": text_value,
            "uris": st.lists(st.text(alphabet=S.token_chars + "/._-", min_size=1, max_size=10).map(lambda s: "/" + s), min_size=1, max_size=3, unique=True),
            "submit": st.text(alphabet=S.token_chars + "/._-", min_size=1, max_size=10).map(lambda s: "/" + s),
            "verb_get": st.sampled_from(["GET", "POST", "PUT"]),
            "verb_post": st.sampled_from(["POST", "GET", "PATCH"]),
            "get_steps": S.valid_client_program(kinds=("metadata",)),
            "post_steps": S.valid_client_program(kinds=("id", "output")),
            "recover_steps": S.valid_recover_program(),
            "spawnto_x86": text_value,
            "spawnto_x64": text_value,
            "cleanup": st.integers(0, 1),
            "nook": st.sampled_from([0, 0, 0x1000, 0xDEADBEEF]),
            "perms_i": st.sampled_from([64, 4]),
            "perms": st.sampled_from([64, 32]),
            "min_alloc": st.sampled_from([0, 1, 4096, 17500, 2**31]),
            "tx86": st.tuples(S.arg_bytes, S.arg_bytes),
            "tx64": st.tuples(S.arg_bytes, S.arg_bytes),
            "execute": S.execute_list(),
            "allocator": st.integers(0, 1),
            "dns": st.lists(text_value, min_size=7, max_size=7),
            "dns_idle": S.u32,
            "dns_sleep": S.u32,
            "maxdns": st.integers(0, 255),
            "bof_reuse": st.integers(0, 1),
            "bof_alloc": st.integers(0, 2),
            "data_store": st.integers(0, 65535),
            "data_required": st.integers(0, 1),
            "gate": S.gate_flags,
            "frame_tcp": S.binary(0, 12),
            "frame_smb": S.binary(0, 12),
            # a configuration may state the same static header / parameter name more than once (the binary program is
            # just a list of steps): (program, which static, new value)
            "dup_statics": st.one_of(st.just([]), st.lists(st.tuples(st.sampled_from(["get", "post"]), st.integers(0, 5), st.text(alphabet=S.token_chars + " ;=/", max_size=12).map(lambda t: t.strip().encode())), min_size=1, max_size=3)),
        }
    )


def effective_steps(case, which):
    steps = [tuple(s) for s in case[which + "_steps"]]
    for prog, idx, val in case.get("dup_statics") or []:
        statics = [s for s in steps if s[0] in ("_HEADER", "_PARAMETER", "_HOSTHEADER")]
        if prog != which or not statics:
            continue
        n, a = statics[idx % len(statics)]
        sep = b"=" if n == "_PARAMETER" else b": "
        steps.append((n, a.partition(sep)[0] + sep + bytes(val)))
    return steps


def cstr(s, pad=None):
    return P.cstr(s.encode("latin-1"), pad)


def build_settings(case):
    inc = iter(case["include"])
    uris = case["uris"]
    domains = ",".join(f"c2.example.com,{u}" for u in uris)
    cand = [
        ("sleeptime", (3, INT, struct.pack(">I", case["sleeptime"]))),
        ("jitter", (5, SHORT, struct.pack(">H", case["jitter"]))),
        ("useragent", (9, PTR, cstr(case["useragent"][:100], 128))),
        ("domains", (8, PTR, cstr(domains, 256))),
        ("submit", (10, PTR, cstr(case["submit"], 64))),
        ("verb_get", (26, PTR, cstr(case["verb_get"], 16))),
        ("verb_post", (27, PTR, cstr(case["verb_post"], 16))),
        ("recover", (11, PTR, P.enc_recover([tuple(s) for s in case["recover_steps"]], pad_to=256))),
        ("get", (12, PTR, P.enc_transform(effective_steps(case, "get"), build0="metadata", pad_to=512))),
        ("post", (13, PTR, P.enc_transform(effective_steps(case, "post"), build0="id", pad_to=512))),
        ("spawnto_x86", (29, PTR, cstr(case["spawnto_x86"], 64))),
        ("spawnto_x64", (30, PTR, cstr(case["spawnto_x64"], 64))),
        ("cleanup", (38, SHORT, struct.pack(">H", case["cleanup"]))),
        ("nook", (41, INT, struct.pack(">I", case["nook"]))),
        ("perms_i", (43, SHORT, struct.pack(">H", case["perms_i"]))),
        ("perms", (44, SHORT, struct.pack(">H", case["perms"]))),
        ("min_alloc", (45, INT, struct.pack(">I", case["min_alloc"]))),
        ("tx86", (46, PTR, P.enc_procinj_transform(*case["tx86"], pad_to=256))),
        ("tx64", (47, PTR, P.enc_procinj_transform(*case["tx64"], pad_to=256))),
        ("execute", (51, PTR, P.enc_execute([tuple(e) if isinstance(e, (list, tuple)) else e for e in case["execute"]], pad_to=128))),
        ("allocator", (52, SHORT, struct.pack(">H", case["allocator"]))),
        ("dns_beacon", (60, PTR, cstr(case["dns"][0], 33))),
        ("dns_get_a", (61, PTR, cstr(case["dns"][1], 33))),
        ("dns_get_aaaa", (62, PTR, cstr(case["dns"][2], 33))),
        ("dns_get_txt", (63, PTR, cstr(case["dns"][3], 33))),
        ("dns_put_metadata", (64, PTR, cstr(case["dns"][4], 33))),
        ("dns_put_output", (65, PTR, cstr(case["dns"][5], 33))),
        ("dns_idle", (19, INT, struct.pack(">I", case["dns_idle"]))),
        ("dns_sleep", (20, INT, struct.pack(">I", case["dns_sleep"]))),
        ("maxdns", (6, SHORT, struct.pack(">H", case["maxdns"]))),
        ("bof_reuse", (48, SHORT, struct.pack(">H", case["bof_reuse"]))),
        ("bof_alloc", (16, SHORT, struct.pack(">H", case["bof_alloc"]))),
        ("data_store", (76, INT, struct.pack(">I", case["data_store"]))),
        ("data_required", (77, SHORT, struct.pack(">H", case["data_required"]))),
        ("gate", (78, PTR, P.enc_beacon_gate(list(case["gate"])))),
        ("frame_tcp", (58, PTR, P.enc_pivot_frame(case["frame_tcp"], pad_to=128))),
        ("frame_smb", (57, PTR, P.enc_pivot_frame(case["frame_smb"], pad_to=128))),
        ("pubkey", (7, PTR, keys.der_public("rsa_1024_a") + b"\x00" * 94)),
        ("port", (2, SHORT, struct.pack(">H", 443))),
        ("watermark", (37, INT, struct.pack(">I", 1234))),
    ]
    chosen = [(name, s) for name, s in cand if next(inc)]
    # deterministic shuffle from the drawn integer
    order = case["order"]
    out = []
    pool = list(chosen)
    while pool:
        out.append(pool.pop(order % len(pool)))
        order //= 7
    present = {name for name, _ in out}
    return [(1, SHORT, b"\x00\x08")] + [s for _, s in out], present


def text_ok(got_text, original: str):
    """The literal text, or its decoded form, reproduces the original value."""
    if got_text == original:
        return True
    try:
        return L.decode(got_text) == original.encode("latin-1")
    except Exception:
        return False


def steps_expected(steps):
    out = []
    for n, a in steps:
        if n == "BUILD" or n in ("_HEADER", "_PARAMETER", "_HOSTHEADER"):
            continue
        low = n.lower().replace("uri_append", "uri-append")
        out.append(low if a is True else (low, a))
    return out


def split_blocks_expected(steps):
    blocks = {}
    cur = None
    for n, a in steps:
        if n == "BUILD":
            cur = a
            blocks.setdefault(cur, [])
        elif n in ("_HEADER", "_PARAMETER", "_HOSTHEADER"):
            continue
        else:
            low = n.lower().replace("uri_append", "uri-append")
            blocks[cur].append(low if a is True else (low, a))
    return blocks


def statics_expected(steps):
    hdr, prm = [], []
    for n, a in steps:
        if n in ("_HEADER", "_HOSTHEADER"):
            k, _, v = a.partition(b": ")
            hdr.append((k, v))
        elif n == "_PARAMETER":
            k, _, v = a.partition(b"=")
            prm.append((k, v))
    return hdr, prm


def execute(case, stats):
    from dissect.cobaltstrike import c2profile
    from dissect.cobaltstrike.beacon import BeaconConfig

    settings, present = build_settings(case)
    block = tlv.encode(settings, pad_to=4096)
    cfg = lib(BeaconConfig, block, what="BeaconConfig(block)")
    prof = lib(c2profile.C2Profile.from_beacon_config, cfg, what="from_beacon_config")
    text = lib(prof.as_text, what="as_text of generated profile")
    back = lib(c2profile.C2Profile.from_text, text, allow=(Exception,), what="from_text(generated text)")
    if isinstance(back, Raised):
        raise Violation("profile:generated_text_invalid", f"generated profile does not parse: {str(back.exc)[:300]!r}; settings present={sorted(present)}; text={text[:600]!r}")
    d = lib(back.as_dict, what="as_dict")
    if case["order"] % 3 == 0:
        # generating again from the same configuration object must give the same profile
        text2 = lib(lambda: c2profile.C2Profile.from_beacon_config(cfg).as_text(), what="second from_beacon_config on the same object")
        if text2 != text:
            raise Violation("profile:second_generation_differs", f"second profile generated from the same configuration object differs:\n{text2[:400]!r}\nvs\n{text[:400]!r}")
    toks = PL.tokenize(text)
    for i in range(len(toks) - 1):
        if toks[i] == "{" and toks[i + 1] == "}":
            raise Violation("profile:empty_block", f"generated profile contains an empty block near token {i}: {toks[max(0, i - 3):i + 2]}")

    def one(key):
        v = d.get(key)
        return v[0] if isinstance(v, list) and len(v) == 1 else v

    def expect_text(key, original, keyname):
        got = one(key)
        if not (isinstance(got, str) and text_ok(got, original)):
            raise Violation(f"profile:{keyname}", f"{key} = {got!r}, configuration says {original!r}")

    def expect_pairs(key, pairs, keyname):
        got = d.get(key, [])
        ok = len(got) == len(pairs) and all(text_ok(g[0], k.decode("latin-1")) and text_ok(g[1], v.decode("latin-1")) for g, (k, v) in zip(got, pairs))
        if not ok:
            raise Violation(f"profile:{keyname}", f"{key} = {got!r}, configuration says {pairs!r}")

    if "sleeptime" in present:
        expect_text("sleeptime", str(case["sleeptime"]), "sleeptime")
    if "jitter" in present:
        expect_text("jitter", str(case["jitter"]), "jitter")
    if "useragent" in present:
        expect_text("useragent", case["useragent"][:100], "text_value")
    if "domains" in present:
        got = one("http-get.uri")
        eq(isinstance(got, str) and [u for u in re.split(r"[,\s]+", got) if u], case["uris"], "profile:uris", "http-get.uri")
    if "submit" in present:
        expect_text("http-post.uri", case["submit"], "submit_uri")
    if "verb_get" in present:
        expect_text("http-get.verb", case["verb_get"], "verb")
    if "verb_post" in present:
        expect_text("http-post.verb", case["verb_post"], "verb")
    get_steps = effective_steps(case, "get")
    post_steps = effective_steps(case, "post")
    if "get" in present:
        hdr, prm = statics_expected(get_steps)
        expect_pairs("http-get.client.header", hdr, "static_header")
        expect_pairs("http-get.client.parameter", prm, "static_parameter")
        want = split_blocks_expected(get_steps)
        got = d.get("http-get.client.metadata", [])
        if got != want.get("metadata", []):
            raise Violation("profile:get_transform", f"http-get.client.metadata = {got!r}, configuration says {want.get('metadata')!r}")
    if "post" in present:
        hdr, prm = statics_expected(post_steps)
        expect_pairs("http-post.client.header", hdr, "static_header")
        expect_pairs("http-post.client.parameter", prm, "static_parameter")
        want = split_blocks_expected(post_steps)
        for kind in ("id", "output"):
            got = d.get(f"http-post.client.{kind}", [])
            if got != want.get(kind, []):
                raise Violation("profile:post_transform", f"http-post.client.{kind} = {got!r}, configuration says {want.get(kind)!r}")
    if "recover" in present:
        rs = [tuple(s) for s in case["recover_steps"]]
        body = [s for s in rs if s[0] != "print"]
        want = []
        for n, a in reversed(body):
            want.append(n if a is True else (n, b"X" * a))
        want.append("print")
        got = d.get("http-get.server.output", [])
        norm = [(g[0], len(g[1])) if isinstance(g, tuple) else g for g in got]
        wnorm = [(w[0], len(w[1])) if isinstance(w, tuple) else w for w in want]
        if norm != wnorm:
            key = "profile:server_output_order" if sorted(map(str, norm)) == sorted(map(str, wnorm)) else "profile:server_output"
            raise Violation(key, f"http-get.server.output = {norm!r}, recover program {rs!r} corresponds to profile steps {wnorm!r}")
    for nm in ("spawnto_x86", "spawnto_x64"):
        if nm in present:
            expect_text(nm, case[nm], "text_value")
    if "cleanup" in present:
        got = one("stage.cleanup")
        check(got in (("1", "true") if case["cleanup"] else ("0", "false")), "profile:stage_cleanup", f"stage.cleanup = {got!r} for CLEANUP={case['cleanup']}")
    if "nook" in present:
        check(("stage.sleep_mask" in d) == bool(case["nook"]), "profile:sleep_mask", f"stage.sleep_mask = {d.get('stage.sleep_mask')!r} for GARGLE_NOOK={case['nook']}")
    if "perms_i" in present:
        eq(one("process-inject.startrwx"), "true" if case["perms_i"] == 64 else "false", "profile:startrwx", f"process-inject.startrwx for PERMS_I={case['perms_i']}")
    if "perms" in present:
        eq(one("process-inject.userwx"), "true" if case["perms"] == 64 else "false", "profile:userwx", f"process-inject.userwx for PERMS={case['perms']}")
    if "min_alloc" in present and case["min_alloc"]:
        expect_text("process-inject.min_alloc", str(case["min_alloc"]), "min_alloc")
    if "tx86" in present:
        pre, app = case["tx86"]
        want = ([("prepend", pre)] if pre else []) + ([("append", app)] if app else [])
        got = d.get("process-inject.transform-x86", [])
        if sorted(got) != sorted(want):
            raise Violation("profile:procinj_transform", f"process-inject.transform-x86 = {got!r}, configuration says {want!r}")
    if "tx64" in present:
        pre, app = case["tx64"]
        for nm, val in (("prepend", pre), ("append", app)):
            got = d.get(f"process-inject.transform-x64.{nm}")
            if val:
                ok = isinstance(got, list) and len(got) == 1 and text_ok(got[0], val.decode("latin-1"))
                if not ok:
                    raise Violation("profile:procinj_transform", f"process-inject.transform-x64.{nm} = {got!r}, configuration says {val!r}")
            else:
                check(got is None, "profile:procinj_transform_phantom", f"transform-x64.{nm} = {got!r} although empty")
    if "execute" in present:
        want = []
        for e in case["execute"]:
            if isinstance(e, (tuple, list)):
                name, mod, fn, off = e
                s = mod + b"!" + fn + (b"+0x%x" % off if off else b"")
                want.append((name.rstrip("_"), s))
            else:
                want.append(e)
        got = d.get("process-inject.execute", [])
        if got != want:
            raise Violation("profile:execute", f"process-inject.execute = {got!r}, configuration says {want!r}")
    if "allocator" in present:
        eq(one("process-inject.allocator"), "NtMapViewOfSection" if case["allocator"] else "VirtualAllocEx", "profile:allocator", "process-inject.allocator")
    for i, (nm, key) in enumerate([("dns_beacon", "beacon"), ("dns_get_a", "get_A"), ("dns_get_aaaa", "get_AAAA"), ("dns_get_txt", "get_TXT"), ("dns_put_metadata", "put_metadata"), ("dns_put_output", "put_output")]):
        if nm in present:
            expect_text(f"dns-beacon.{key}", case["dns"][i][:32], "text_value")
    if "dns_idle" in present:
        eq(one("dns-beacon.dns_idle"), ".".join(str(b) for b in struct.pack(">I", case["dns_idle"])), "profile:dns_idle", "dns-beacon.dns_idle")
    if "dns_sleep" in present:
        expect_text("dns-beacon.dns_sleep", str(case["dns_sleep"]), "dns_sleep")
    if "maxdns" in present:
        expect_text("dns-beacon.maxdns", str(case["maxdns"]), "maxdns")
    if "bof_reuse" in present:
        eq(d.get("process-inject.bof_reuse_memory"), ["true"] if case["bof_reuse"] else None, "profile:bof_reuse_memory", "process-inject.bof_reuse_memory")
    if "bof_alloc" in present:
        eq(one("process-inject.bof_allocator"), ["VirtualAlloc", "MapViewOfFile", "HeapAlloc"][case["bof_alloc"]], "profile:bof_allocator", "process-inject.bof_allocator")
    if "data_store" in present:
        expect_text("stage.data_store_size", str(case["data_store"]), "data_store_size")
    if "data_required" in present:
        eq(d.get("http-beacon.data_required"), ["true"] if case["data_required"] else None, "profile:data_required", "http-beacon.data_required")
    flags = list(case["gate"])
    if "gate" in present:
        enabled = {a for a, f in zip(P.BEACON_GATE_APIS, flags) if f}
        got = d.get("stage.beacon_gate")
        if enabled:
            check(isinstance(got, list) and P.gate_expand(got) == enabled, "profile:beacon_gate", f"stage.beacon_gate = {got!r}, configuration enables {sorted(enabled)}")
        else:
            check(got is None, "profile:beacon_gate_phantom", f"stage.beacon_gate = {got!r} for an empty gate")
    for nm, key in (("frame_tcp", "tcp_frame_header"), ("frame_smb", "smb_frame_header")):
        if nm in present and case[nm]:
            got = one(key)
            ok = isinstance(got, str) and text_ok(got, case[nm].decode("latin-1"))
            if not ok:
                raise Violation("profile:frame_header", f"{key} = {got!r}, configuration says {case[nm]!r}")

    args = [a for n, a in get_steps + post_steps if isinstance(a, bytes)] if ("get" in present or "post" in present) else []
    special = any(any(c < 0x20 or c > 0x7E or c in b"\"'\\" for c in a) for a in args)
    indiv = "gate" in present and 0 < sum(map(bool, flags)) < 23 and not all(flags[2:22])
    off = "execute" in present and any(isinstance(e, (tuple, list)) and e[3] for e in case["execute"])
    stats.note(case, special or indiv or off, classes=["settings_%d" % (len(present) // 10 * 10), "special_arg" if special else "plain_args", "gate_individual" if indiv else "gate_other", "execute_offset" if off else "no_offset", "repeated_static_name" if len(get_steps) + len(post_steps) > len(case["get_steps"]) + len(case["post_steps"]) else "distinct_static_names"])


def samples_enumerate(tier, shard, nshards):
    from .. import samples
    from ..runner import shard_iter

    return shard_iter(({"name": n} for n in sorted(samples.NAMES)), shard, nshards)


def samples_execute(case, stats):
    """Profiles generated from the seven real sample beacons: valid text, transform steps equal the frozen decoded values."""
    from dissect.cobaltstrike import c2profile
    from dissect.cobaltstrike.beacon import BeaconConfig

    from .. import samples
    from ..ref import anchor_samples as A

    name = case["name"]
    meta = A.fixture()[name]
    cfg = lib(BeaconConfig.from_bytes, samples.sample(name), xor_keys=samples.SAMPLE_KEYS, what=f"from_bytes({name})")
    prof = lib(c2profile.C2Profile.from_beacon_config, cfg, what="from_beacon_config")
    text = lib(prof.as_text, what="as_text")
    back = lib(c2profile.C2Profile.from_text, text, allow=(Exception,), what="from_text(generated)")
    if isinstance(back, Raised):
        raise Violation("profile:generated_text_invalid", f"{name}: generated profile does not parse: {str(back.exc)[:300]}")
    d = lib(back.as_dict)
    dec = meta["decoded"]
    if "12" in dec:
        want = split_blocks_expected([tuple(x) for x in dec["12"]])
        eq(d.get("http-get.client.metadata", []), want.get("metadata", []), "profile:get_transform", f"{name}: http-get.client.metadata")
    if "13" in dec:
        want = split_blocks_expected([tuple(x) for x in dec["13"]])
        for kind in ("id", "output"):
            eq(d.get(f"http-post.client.{kind}", []), want.get(kind, []), "profile:post_transform", f"{name}: http-post.client.{kind}")
    if "11" in dec and dec["11"]:
        rs = [tuple(x) for x in dec["11"]]
        want = [n if a is True else (n, a) for n, a in reversed([x for x in rs if x[0] != "print"])] + ["print"]
        got = [(g[0], len(g[1])) if isinstance(g, tuple) else g for g in d.get("http-get.server.output", [])]
        eq(got, want, "profile:server_output_order", f"{name}: http-get.server.output (kinds and lengths, profile order)")
    if "51" in dec:
        want = []
        for e in dec["51"]:
            if '"' in e:
                nm, arg = e.split(" ", 1)
                want.append((nm, arg.strip('"').encode()))
            else:
                want.append(e.replace("_s", "-s"))
        eq(d.get("process-inject.execute", []), want, "profile:execute", f"{name}: process-inject.execute")
    stats.note(case, True, classes=["real_sample"])


SUBS = [
    Sub("real_samples", samples_execute, enumerate=samples_enumerate, exhaustive=True),
    Sub("config_to_profile", execute, strategy=cfg_strategy, examples={"quick": 320, "thorough": 6400}),
]
