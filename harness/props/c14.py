"""C14 - a parsed beacon configuration is an immutable value."""

import hashlib
import random
import struct

from hypothesis import strategies as st
from hypothesis.stateful import RuleBasedStateMachine, initialize, precondition, rule

from .. import cfgbuild, jsonx, keys
from .. import strategies as S
from ..oracle import Raised, check, eq, lib
from ..ref import programs as P
from ..runner import Sub, Violation
from .c19 import patched_client_module

PROPERTY = "C14"
LEVEL = "exploration"
RULE = (
    "Stateful: one configuration object (C07 generator + process-inject / BeaconGate / DNS extras) and histories of "
    "<= 16 uses in any order with repetition: read each of the four views, settings_map variants and convenience "
    "properties; C2Http(...) with each key variant; HttpBeaconClient.run(dry_run=True) with any subset of its optional "
    "overrides (host_header, user_agent, sleeptime, jitter, domain, port, scheme ...); C2Profile.from_beacon_config "
    "(+as_text); transform/recover on any decoder created so far; item assignment on each mapping. Invariant after "
    "every step: a deep snapshot (views, config_block, settings_tuple) equals the initial one, and each operation's "
    "result equals the same operation on a FRESH configuration built from the same bytes; assignments raise "
    "TypeError. Non-trivial: >= 2 decoder constructions, or a profile generation after a decoder construction."
)
ASSUMPTIONS = ["snapshot covers config_block, settings_tuple, the four cached views, settings_map('enum') and the derived properties"]


def norm(v):
    """Canonical, comparable rendering of library values (cstruct ints/bytes subclasses, tuples, enum keys)."""
    if isinstance(v, (bytes, bytearray)):
        return ("b", bytes(v))
    if isinstance(v, bool) or v is None:
        return v
    if isinstance(v, int):
        return int(v)
    if isinstance(v, str):
        return str(v)
    if isinstance(v, (list, tuple)):
        return [norm(x) for x in v]
    if isinstance(v, dict) or hasattr(v, "items"):
        return [[norm(getattr(k, "value", k)) if not isinstance(k, str) else k, norm(x)] for k, x in v.items()]
    return repr(v)


def snapshot(c):
    out = {
        "config_block": bytes(c.config_block),
        "settings_tuple": [(s.index.value, s.type.value, s.length, bytes(s.value)) for s in c.settings_tuple],
        "settings_tuple_names": [(type(s.index).__name__, s.index.name, type(s.type).__name__, s.type.name) for s in c.settings_tuple],
        "raw_settings": norm(c.raw_settings),
        "raw_settings_by_index": norm(c.raw_settings_by_index),
        "settings": norm(c.settings),
        "settings_by_index": norm(c.settings_by_index),
        "map_enum_pretty": norm(c.settings_map(pretty=True)),
        "derived": norm([c.domains, c.uris, c.domain_uri_pairs, c.submit_uri, c.killdate, c.protocol, c.port, c.watermark, c.is_trial, str(c.version), c.public_key, c.sleeptime, c.jitter, c.xorkey, c.xorencoded]),
    }
    return jsonx.dumps(out)


DERIVED_NAMES = ["domains", "uris", "domain_uri_pairs", "submit_uri", "killdate", "protocol", "port", "watermark", "is_trial", "version", "public_key", "sleeptime", "jitter"]


def _derived(c, name):
    v = getattr(c, name)
    return str(v) if name == "version" else v


def transform_state(t):
    return norm([t.tsteps, t.rsteps])


def decoder_state(d):
    return norm([d.get_uris, d.get_verb, d.submit_uri, d.submit_verb, transform_state(d.transform_get), transform_state(d.transform_submit), transform_state(d.transform_response)])


KEY_VARIANTS = ["rsa", "aes_rand", "keys"]


def make_decoder(c2, cfgobj, variant):
    if variant == "rsa":
        return c2.C2Http(cfgobj, rsa_private_key=keys.rsa("rsa_1024_a"))
    if variant == "aes_rand":
        return c2.C2Http(cfgobj, aes_rand=b"R" * 16)
    d = hashlib.sha256(b"R" * 16).digest()  # the session keys that belong to aes_rand = R * 16
    return c2.C2Http(cfgobj, aes_key=d[:16], hmac_key=d[16:])


def session_traffic(cfg):
    """One check-in (metadata with aes_rand = R * 16) and the response carrying one task, produced by the reference
    beacon / team server for this configuration: (raw request, raw response, expected task tuple)."""
    from Crypto.Cipher import PKCS1_v1_5

    from .. import peer

    priv = keys.rsa("rsa_1024_a")
    fields = {n: 0 for n in peer.META_FIELDS[2:]}
    fields.update(aes_rand=b"R" * 16, bid=4242, pid=77, ansi_cp=1252, oem_cp=437)
    blob = PKCS1_v1_5.new(priv.public_key()).encrypt(peer.build_metadata(fields, b"HOST\tuser\tproc.exe"))
    raw_req = peer.RefBeacon(cfg).checkin_request(blob, masks=[b"\x01\x02\x03\x04"] * 8)
    ts = peer.TeamServer(cfg, priv)
    ts.masks = [b"\x05\x06\x07\x08"] * 8
    ts.queue.append((1700000123, 32, b"task-data"))
    raw_resp = ts.handle(raw_req)
    return raw_req, raw_resp, (1700000123, 32, b"task-data")


def do_operation(c2mod, profmod, cfgobj, decoders, op, record=True):
    """Performs one use of the configuration; returns a comparable result."""
    kind = op[0]
    if kind == "view":
        name = op[1]
        if name.startswith("map:"):
            _, it, pretty, parse = name.split(":")
            return norm(cfgobj.settings_map(index_type=it, pretty=pretty == "1", parse=parse == "1"))
        if name == "derived":
            return norm([cfgobj.domains, cfgobj.uris, cfgobj.killdate, cfgobj.protocol, cfgobj.port, str(cfgobj.version), cfgobj.public_key, cfgobj.setting_enums, cfgobj.max_setting_enum])
        return norm(getattr(cfgobj, name))
    if kind == "decoder":
        d = make_decoder(c2mod, cfgobj, op[1])
        d._verif_variant = op[1]
        if record:
            decoders.append(d)
        return decoder_state(d)
    if kind == "client":
        from dissect.cobaltstrike.client import HttpBeaconClient

        with patched_client_module():
            cl = HttpBeaconClient()
            opts = dict(op[2]) if len(op) > 2 and op[2] else {}
            cl.run(cfgobj, dry_run=True, beacon_id=op[1], user="u", computer="c", process="p", internal_ip="10.0.0.1", arch="x86", pid=4242, **opts)
        cl.c2http._verif_variant = "client"
        if record:
            decoders.append(cl.c2http)
        return norm([decoder_state(cl.c2http), cl.get_uri, cl.submit_uri, bytes(cl.metadata.dumps()), cl.sleeptime, cl.jitter, cl.user_agent])
    if kind == "profile":
        p = profmod.C2Profile.from_beacon_config(cfgobj)
        return p.as_text() if op[1] else norm(p.as_dict())
    if kind == "transform":
        if not decoders:
            return None
        d = decoders[op[1] % len(decoders)]
        state = random.getstate()
        random.seed(op[3])
        try:
            if op[2] == "get":
                req = d.transform_get.transform(c2mod.C2Data(metadata=op[4]))
                back = d.transform_get.recover(req)
            elif op[2] == "post":
                req = d.transform_submit.transform(c2mod.C2Data(id=b"1234", output=op[4]))
                back = d.transform_submit.recover(req)
            else:
                req = d.transform_response.transform(c2mod.C2Data(output=op[4]))
                back = d.transform_response.recover(c2mod.HttpResponse(status=200, headers={}, reason=b"OK", body=req.body))
        finally:
            random.setstate(state)
        return norm([req.uri, req.params, req.headers, req.body, tuple(back)])
    if kind == "decode":
        # a recorded check-in and the response carrying a task, decoded by one of the decoders made so far
        if not decoders:
            return None
        d = decoders[op[1] % len(decoders)]
        if d is None or getattr(d, "_verif_variant", "client") == "client":
            return None  # a client's decoder holds the session keys of its own beacon id
        raw_req, raw_resp, task = op[2]
        out = []
        for raw in (raw_req, raw_resp):
            for pkt in d.iter_recover_http(raw):
                name = type(pkt).__name__
                out.append(("metadata", int(pkt.bid), bytes(pkt.aes_rand)) if name == "BeaconMetadata" else ("task", int(pkt.epoch), int(getattr(pkt.command, "value", pkt.command)), bytes(pkt.data)) if name == "TaskPacket" else ("other", name))
        want = ([("metadata", 4242, b"R" * 16)] if d._verif_variant == "rsa" else []) + [("task",) + tuple(task)]
        if out != want:
            raise Violation("history:traffic_decoded_wrongly", f"{d._verif_variant} decoder: check-in + task decoded to {out!r}, sent {want!r}")
        return norm(out)
    if kind == "assign":
        views = {"settings": cfgobj.settings, "raw_settings": cfgobj.raw_settings, "settings_by_index": cfgobj.settings_by_index, "raw_settings_by_index": cfgobj.raw_settings_by_index, "map": cfgobj.settings_map()}
        m = views[op[1]]
        key = next(iter(m), "SETTING_PORT")
        try:
            m[key] = 1
        except TypeError:
            pass
        else:
            raise Violation("mutation:assignment_accepted", f"assignment into {op[1]} succeeded")
        try:
            del m[key]
        except TypeError:
            pass
        else:
            raise Violation("mutation:delete_accepted", f"deletion from {op[1]} succeeded")
        # every other spelling of a mutation: rejected (the method does not exist or raises) - and, whatever it does,
        # the mapping afterwards still holds what it held
        before = norm(m)
        size = len(m)

        def ior():
            mm = m
            mm |= {key: 4444}
            return mm

        spellings = {
            "update": lambda: m.update({key: 4444}),
            "|=": ior,
            "pop": lambda: m.pop(key),
            "popitem": lambda: m.popitem(),
            "clear": lambda: m.clear(),
            "setdefault": lambda: m.setdefault("no-such-setting", 1),
            "__init__": lambda: type(m).__init__(m, {key: 4444}) if isinstance(m, dict) else (_ for _ in ()).throw(TypeError("not a dict")),
        }
        for name, fn in spellings.items():
            try:
                fn()
            except (TypeError, AttributeError):
                pass
            else:
                # "|=" may legitimately fall back to "|" and rebind the local name; an explicit mutator must refuse
                if name not in ("|=", "__init__"):
                    raise Violation("mutation:spelling_accepted", f"{name} on {op[1]} did not raise")
            if len(m) != size or norm(m) != before:
                raise Violation("mutation:spelling_accepted", f"{name} on {op[1]} changed the mapping")
        return "TypeError"
    raise AssertionError(op)


class State:
    def __init__(self, init):
        from dissect.cobaltstrike import c2, c2profile
        from dissect.cobaltstrike.beacon import BeaconConfig

        self.c2, self.prof, self.BeaconConfig = c2, c2profile, BeaconConfig
        cfg = cfgbuild.normalize_cfg(init["cfg"])
        cfg["stale"] = bytes(init.get("stale") or b"")
        extra = []
        if init["extras"]:
            extra = [
                (43, 1, struct.pack(">H", 4)), (44, 1, struct.pack(">H", 32)), (45, 2, struct.pack(">I", 4096)),
                (46, 3, P.enc_procinj_transform(b"\x90\x90", b"", pad_to=64)), (47, 3, P.enc_procinj_transform(b"", b"\xcc", pad_to=64)),
                (51, 3, P.enc_execute(["CreateThread", ("CreateRemoteThread_", b"kernel32.dll", b"LoadLibraryA", 16), "RtlCreateUserThread"], pad_to=64)),
                (52, 1, struct.pack(">H", 1)), (29, 3, P.cstr(b"%windir%\\syswow64\\rundll32.exe", 64)), (30, 3, P.cstr(b"%windir%\\sysnative\\rundll32.exe", 64)),
                (15, 3, P.cstr(b"\\\\.\\pipe\\msagent_12", 64)), (78, 3, P.enc_beacon_gate(init["gate"])),
            ]  # fmt: skip
        for idx, val in init.get("legacy") or []:
            extra.append((idx, 1, struct.pack(">H", val)))
        self.cfg = cfg
        self.block = cfgbuild.block_from_cfg(cfg, keys.der_public("rsa_1024_a"), extra=extra)
        self.cfgobj = lib(BeaconConfig, self.block, what="BeaconConfig(block)")
        self.decoders = []
        # a second long-lived object whose views are first read by the operations themselves (never by a snapshot)
        self.lazyobj = self.BeaconConfig(self.block)
        self.initial = lib(lambda: snapshot(self.cfgobj), what="snapshot")
        self.ndecoders = 0
        self.profile_after_decoder = False
        # every derived property read FIRST on an object of its own (before any view exists) gives what it gives on an
        # object whose views have all been read: the value does not depend on the order of access
        for name in DERIVED_NAMES:
            first = lib(lambda: norm(_derived(self.BeaconConfig(self.block), name)), what=f"fresh configuration: .{name} read first")
            later = lib(lambda: norm(_derived(self.cfgobj, name)), what=f".{name} after all views")
            if first != later:
                raise Violation("mutation:depends_on_access_order", f".{name} read first on a fresh object is {first!r}, after the views have been read it is {later!r}")
        # names an unrelated message already carries when this history starts (nothing on a sound tree): the foreign-field
        # oracle only counts what appears during this history, so that every reported history reproduces by itself
        probe = lib(lambda: c2.HttpDataTransform([("BUILD", "metadata"), ("PRINT", True)]).transform(c2.C2Data(metadata=b"")), what="probe transform")
        self.baseline = {bytes(k) for k in probe.headers} | {bytes(k) for k in probe.params}

    def fresh(self):
        return self.BeaconConfig(self.block)


def apply_op(st_, op):
    kind = op[0]
    if kind == "decode":
        if not st_.decoders:
            return
        if getattr(st_, "traffic", None) is None:
            st_.traffic = session_traffic(st_.cfg)
        # the recorded session is decoded by EVERY decoder made so far, one after the other (decoders built from one
        # configuration are independent of each other), the drawn one last
        order = [i for i in range(len(st_.decoders)) if i != op[1] % len(st_.decoders)] + [op[1] % len(st_.decoders)]
        for idx in order[:-1]:
            lib(do_operation, st_.c2, st_.prof, st_.cfgobj, st_.decoders, ("decode", idx, st_.traffic), what=f"operation ('decode', {idx})")
        op = ("decode", op[1], st_.traffic)
    got = lib(do_operation, st_.c2, st_.prof, st_.cfgobj, st_.decoders, op, what=f"operation {op[:2]!r}")
    # the same single operation on a fresh configuration
    fresh_decoders = []
    if kind == "decode":
        variant = getattr(st_.decoders[op[1] % len(st_.decoders)], "_verif_variant", "client")
        want = None
        if variant != "client":
            fd = make_decoder(st_.c2, st_.fresh(), variant)
            fd._verif_variant = variant
            want = lib(do_operation, st_.c2, st_.prof, st_.fresh(), [fd], ("decode", 0, st_.traffic), False, what="fresh decode")
    elif kind == "transform" and st_.decoders:
        # a fresh decoder of the same kind from a fresh configuration
        idx = op[1] % len(st_.decoders)
        fresh_decoders = [None] * len(st_.decoders)
        fresh_decoders[idx] = st_.c2.C2Http(st_.fresh(), aes_key=b"K" * 16, hmac_key=b"H" * 16)
        want = lib(do_operation, st_.c2, st_.prof, st_.fresh(), fresh_decoders, op, False, what="fresh operation")
    else:
        want = lib(do_operation, st_.c2, st_.prof, st_.fresh(), fresh_decoders, op, False, what="fresh operation")
    if kind == "transform" and st_.decoders and got is not None:
        # "fresh" above still shares the process with everything done before; the names a message carries are also
        # compared with what the configuration's program defines (nothing left over from earlier messages)
        steps = {"get": st_.cfg["get_steps"], "post": st_.cfg["post_steps"]}.get(op[2], [])
        want_h = sorted({a for n, a in steps if n == "HEADER"} | {a.partition(b": ")[0] for n, a in steps if n in ("_HEADER", "_HOSTHEADER")})
        want_p = sorted({a for n, a in steps if n == "PARAMETER"} | {a.partition(b"=")[0] for n, a in steps if n == "_PARAMETER"})
        got_p = sorted(k[1] for k, _ in got[1] if k[1] in want_p or k[1] not in st_.baseline)
        got_h = sorted(k[1] for k, _ in got[2] if k[1] in want_h or k[1] not in st_.baseline)
        if got_h != want_h or got_p != want_p:
            raise Violation("history:transform_carries_foreign_fields", f"operation {op[:3]!r}: message has headers {got_h} / parameters {got_p}, the program defines {want_h} / {want_p}")
    if kind in ("view", "profile"):
        lazy = lib(do_operation, st_.c2, st_.prof, st_.lazyobj, [], op, False, what=f"operation {op[:2]!r} (object without snapshot)")
        if lazy != want:
            raise Violation(f"history:{kind}_result_depends_on_history", f"operation {op[:3]!r} on an object whose views were first read by earlier operations differs from a fresh configuration:\n got={str(lazy)[:600]}\nwant={str(want)[:600]}")
    if got != want:
        raise Violation(f"history:{kind}_result_depends_on_history", f"operation {op[:3]!r}: result differs from the same operation on a fresh configuration:\n got={str(got)[:600]}\nwant={str(want)[:600]}")
    now = lib(lambda: snapshot(st_.cfgobj), what="snapshot")
    if now != st_.initial:
        a, b = jsonx.loads(st_.initial), jsonx.loads(now)
        diff = [k for k in a if a[k] != b[k]]
        detail = ""
        for k in diff[:2]:
            detail += f" {k}: before={str(a[k])[:400]} after={str(b[k])[:400]}"
        raise Violation("mutation:configuration_changed", f"after {op[:2]!r} the configuration differs in {diff}:{detail}")
    if kind in ("decoder", "client"):
        st_.ndecoders += 1
    if kind == "profile" and st_.ndecoders:
        st_.profile_after_decoder = True


def finish(st_, case, stats):
    end = lib(lambda: snapshot(st_.lazyobj), what="snapshot (object without earlier snapshot)")
    if end != st_.initial:
        a, b = jsonx.loads(st_.initial), jsonx.loads(end)
        diff = [k for k in a if a[k] != b[k]]
        raise Violation("history:views_depend_on_access_order", f"an object whose views were first read by the operations of this history differs from a freshly parsed one in {diff}: " + "".join(f" {k}: fresh={str(a[k])[:300]} this={str(b[k])[:300]}" for k in diff[:2]))
    stats.note(case, st_.ndecoders >= 2 or st_.profile_after_decoder, classes=["decoders%d" % min(st_.ndecoders, 3), "profile_after_decoder" if st_.profile_after_decoder else "no_profile_after_decoder"])


# settings whose index has two names (16, 17, 48) or belongs to the pre-4.x kill date triple (16, 17, 18), index 36
_legacy = st.lists(st.tuples(st.sampled_from([16, 17, 18, 48, 36, 6969]), st.sampled_from([0, 1, 2, 12, 28, 2024])), max_size=5, unique_by=lambda t: t[0])
init_strategy = st.fixed_dictionaries({"cfg": S.http_beacon_config(printable=True), "extras": st.booleans(), "gate": S.gate_flags, "legacy": st.one_of(st.just([]), _legacy), "stale": st.one_of(st.just(b""), st.sampled_from([b"ld/path/of/previous/profile", b"X", b"\xff\xfe", b"/stale\x00more"]), st.binary(min_size=1, max_size=10))})
VIEW_NAMES = ["settings", "raw_settings", "settings_by_index", "raw_settings_by_index", "derived", "map:name:1:1", "map:const:0:0", "map:enum:1:0", "map:enum:0:1"]


def machine(stats, rec):
    class ConfigMachine(RuleBasedStateMachine):
        def __init__(self):
            super().__init__()
            self.ops = []
            self.st = None
            self.init_case = None

        def case(self):
            return {"init": self.init_case, "ops": list(self.ops)}

        @initialize(init=init_strategy)
        def start(self, init):
            self.init_case = init
            self.st = rec.step(lambda: State(init), self.case, stats)

        def do(self, op):
            if self.st is None:
                return
            self.ops.append(op)
            rec.step(lambda: apply_op(self.st, op), self.case, stats)

        @rule(name=st.sampled_from(VIEW_NAMES))
        def view(self, name):
            self.do(("view", name))

        @rule(variant=st.sampled_from(KEY_VARIANTS))
        def decoder(self, variant):
            self.do(("decoder", variant))

        @rule(
            bid=st.sampled_from([2, 1000]),
            opts=st.fixed_dictionaries(
                {},
                optional={
                    "host_header": st.sampled_from(["override.example.com", "Host: other.example.com"]),
                    "user_agent": st.just("OverrideAgent/1.0"),
                    "sleeptime": st.sampled_from([0, 5000]),
                    "jitter": st.sampled_from([0, 50]),
                    "domain": st.just("198.51.100.7"),
                    "port": st.just(8443),
                    "scheme": st.sampled_from(["http", "https"]),
                    "high_integrity": st.booleans(),
                    "barch": st.sampled_from(["x86", "x64"]),
                },
            ),
        )
        def client(self, bid, opts):
            self.do(("client", bid, opts))

        @rule(text=st.booleans())
        def profile(self, text):
            self.do(("profile", text))

        @precondition(lambda self: self.st is not None and self.st.decoders)
        @rule(i=st.integers(0, 7), which=st.sampled_from(["get", "post", "response"]), seed=st.integers(0, 1000), data=S.binary(0, 32))
        def transform(self, i, which, seed, data):
            self.do(("transform", i, which, seed, data))

        @precondition(lambda self: self.st is not None and self.st.decoders)
        @rule(i=st.integers(0, 7))
        def decode(self, i):
            self.do(("decode", i))

        @rule(name=st.sampled_from(["settings", "raw_settings", "settings_by_index", "raw_settings_by_index", "map"]))
        def assign(self, name):
            self.do(("assign", name))

        def teardown(self):
            if self.st is not None:
                stats.evaluations += 1
                try:
                    finish(self.st, self.case(), stats)
                except Violation as v:
                    if v.key not in rec.known_keys:
                        rec._failed(v, self.case())
                        raise

    return ConfigMachine


def execute(case, stats):
    st_ = State(case["init"])
    for op in case["ops"]:
        apply_op(st_, tuple(op))
    finish(st_, case, stats)


SUBS = [Sub("histories", execute, machine=machine, examples={"quick": 192, "thorough": 6400}, steps=16)]
