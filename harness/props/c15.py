"""C15 - pattern scanners report exactly the true occurrences."""

import io
import itertools
import struct

from hypothesis import strategies as st

from ..oracle import check, eq, lib
from ..runner import Sub, shard_iter
from ..seams import buffer_size

PROPERTY = "C15"
LEVEL = "exploration"
RULE = (
    "iter_find_needle: exhaustive over haystacks in {00,01}^<=L and {00,01,02}^<=M, needles of length 1-4 over the "
    "same alphabet, read-buffer sizes 1-5, every start offset and every limit 0..len+1 (L,M = 8,6 quick; 10,7 "
    "thorough), oracle = naive bytes.find loop; plus random haystacks up to 40 KiB with needles planted across "
    "8192-byte boundaries at the default buffer size. ArtifactKit: files with 0-4 planted self-referential headers "
    "vs a reference scan. Non-trivial: the needle occurs at least once (or a header is planted); distinct by content."
)
ASSUMPTIONS = [
    "With a limit L the oracle is: reported subset of true occurrences >= start, and every occurrence with "
    "offset+len(needle) <= L is reported (the statement fixes nothing in between)",
    "ArtifactKit fields are compared only for hits whose 20-byte header is complete; offsets are always compared",
]


def naive_find(hay: bytes, needle: bytes, start: int = 0):
    out = []
    p = hay.find(needle, start)
    while p != -1:
        out.append(p)
        p = hay.find(needle, p + 1)
    return out


def check_scan(utils, hay, needle, buf, start, limit, use_tell=False):
    fh = io.BytesIO(hay)
    with buffer_size(buf):
        if use_tell:
            fh.seek(start)
            got = lib(lambda: list(utils.iter_find_needle(fh, needle, None, limit or 0)), what="iter_find_needle")
        else:
            # an explicit start offset (0 included) must win over wherever the handle currently is
            fh.seek((len(hay) * 2) // 3)
            if (len(hay) + start) % 2:  # positional and keyword form of the optional arguments
                got = lib(lambda: list(utils.iter_find_needle(fh, needle, start, limit or 0)), what="iter_find_needle")
            else:
                got = lib(lambda: list(utils.iter_find_needle(fp=fh, needle=needle, max_offset=limit or 0, start_offset=start)), what="iter_find_needle")
    true = naive_find(hay, needle, start)
    hx = hay.hex() if len(hay) <= 64 else hay[:64].hex() + f"...({len(hay)} bytes)"
    ctx = lambda: f"hay={hx} needle={needle.hex()} buf={buf} start={start} limit={limit} got={got[:40]} true={true[:40]}"
    check(all(isinstance(o, int) and o >= 0 for o in got), "scan:negative_offset", ctx)
    check(len(set(got)) == len(got), "scan:duplicate_offset", ctx)
    check(got == sorted(got), "scan:not_ascending", ctx)
    if not limit:
        check(got == true, "scan:wrong_offsets", ctx)
    else:
        check(set(got) <= set(true), "scan:false_offset_with_limit", ctx)
        must = [o for o in true if o + len(needle) <= limit]
        check(set(must) <= set(got), "scan:missed_before_limit", ctx)
    return true


# ------------------------------------------------------------------------------------------ exhaustive
def scan_enumerate(tier, shard, nshards):
    l2, l3 = (10, 7) if tier == "thorough" else (8, 6)

    def gen():
        for alpha, maxlen in ((b"\x00\x01", l2), (b"\x00\x01\x02", l3)):
            for n in range(0, maxlen + 1):
                for t in itertools.product(alpha, repeat=n):
                    yield {"hay": bytes(t), "alpha": alpha, "maxneedle": 4 if len(alpha) == 2 else 3}

    return shard_iter(gen(), shard, nshards)


def scan_enum_execute(case, stats):
    from dissect.cobaltstrike import utils

    hay, alpha = case["hay"], case["alpha"]
    calls = 0
    found = False
    for nl in range(1, case["maxneedle"] + 1):
        for nt in itertools.product(alpha, repeat=nl):
            needle = bytes(nt)
            for buf in (1, 2, 3, 4, 5):
                for start in range(0, len(hay) + 1):
                    for limit in [None] + list(range(1, len(hay) + 2)):
                        true = check_scan(utils, hay, needle, buf, start, limit)
                        calls += 1
                        found = found or bool(true)
                # start_offset=None means "from the current position"
                for start in (0, len(hay) // 2):
                    check_scan(utils, hay, needle, buf, start, None, use_tell=True)
                    calls += 1
    stats.count("calls", calls)
    stats.note(case, found, classes=[f"alpha{len(alpha)}_len{len(hay)}"])


# ------------------------------------------------------------------------------------------ random, default buffer
def scan_strategy():
    needle = st.one_of(
        st.binary(min_size=1, max_size=8),
        st.sampled_from([b"\x00", b"\x00\x00\x01", b"\xff\xff\xff", b"\x00\x01\x00\x01\x00\x02\x00", b"iii", b"\x00\x00"]),
        st.integers(1, 7).map(lambda n: b"\x00" * n),
    )
    # positions near multiples of 8192 so needles straddle the default read boundary
    near = st.tuples(st.integers(0, 4), st.integers(-9, 9)).map(lambda t: max(0, t[0] * 8192 + t[1]))
    return st.fixed_dictionaries(
        {
            "needle": needle,
            "size": st.one_of(st.integers(0, 64), st.integers(8180, 8200), st.integers(16370, 16400), st.integers(0, 40960)),
            "fill": st.sampled_from([0x00, 0x41, 0xFF, 0x01]),
            "plant": st.lists(st.one_of(near, st.integers(0, 40960)), max_size=5),
            "noise": st.lists(st.tuples(st.integers(0, 40960), st.binary(min_size=1, max_size=6)), max_size=4),
            "start": st.one_of(st.just(0), near, st.integers(0, 40960)),
            "limit": st.one_of(st.none(), st.none(), st.sampled_from([1, 1024, 8192, 8193]), st.integers(1, 41000)),
            "buf": st.sampled_from([None, None, None, 1, 7, 64, 4096, 8191]),
        }
    )


def build_hay(case):
    hay = bytearray([case["fill"]]) * case["size"]
    for pos, blob in case["noise"]:
        if pos < len(hay):
            hay[pos : pos + len(blob)] = blob[: max(0, len(hay) - pos)]
    for pos in case["plant"]:
        n = case["needle"]
        if pos + len(n) <= len(hay):
            hay[pos : pos + len(n)] = n
    return bytes(hay)


def scan_execute(case, stats):
    from dissect.cobaltstrike import utils

    hay = build_hay(case)
    start = min(case["start"], len(hay))
    buf = case["buf"]
    if buf is not None and buf < 64 and len(hay) > 4096:
        hay = hay[:4096]  # tiny buffers on big files only cost time
        start = min(start, len(hay))
    true = check_scan(utils, hay, case["needle"], buf, start, case["limit"])
    B = buf or 8192
    straddle = any((o // B) != ((o + len(case["needle"]) - 1) // B) for o in true)
    stats.note(
        case,
        bool(true),
        classes=[
            "straddles_buffer_boundary" if straddle else "no_straddle",
            "needle_len1" if len(case["needle"]) == 1 else "needle_len>1",
            "needle_starts_with_nul" if case["needle"][:1] == b"\x00" else "needle_nonnul",
            "with_limit" if case["limit"] else "no_limit",
            "multi_block" if len(hay) > B else "single_block",
        ],
    )


# ------------------------------------------------------------------------------------------ ArtifactKit
def ak_strategy():
    hdr = st.fixed_dictionaries(
        {
            "pos": st.integers(0, 600),
            "size": st.one_of(st.integers(0, 64), st.integers(0, 700), st.sampled_from([0, 1, 0xFFFFFFFF, 0x7FFFFFFF])),
            "key": st.one_of(st.binary(min_size=4, max_size=4), st.just(b"\x00" * 4)),
            "hints": st.binary(min_size=8, max_size=8),
        }
    )
    return st.fixed_dictionaries(
        {
            "size": st.integers(0, 700),
            "fill": st.sampled_from([0, 0x90, 0xCC]),
            "headers": st.lists(hdr, max_size=4),
            "payload_seed": st.binary(min_size=1, max_size=16),
            "start": st.one_of(st.just(0), st.just(0), st.integers(0, 700), st.none()),
            "maxrange": st.one_of(st.none(), st.none(), st.integers(0, 700)),
            "tellpos": st.integers(0, 64),
        }
    )


def ref_artifact_scan(data: bytes, start: int, maxrange):
    out = []
    pos = start
    while True:
        if maxrange is not None and pos > maxrange:
            break
        w = data[pos : pos + 4]
        if len(w) != 4:
            break
        if struct.unpack("<I", w)[0] == pos + 16:
            out.append(pos)
        pos += 1
    return out


def ak_execute(case, stats):
    from dissect.cobaltstrike import artifact

    data = bytearray([case["fill"]]) * case["size"]
    seed = case["payload_seed"]
    for i in range(len(data)):
        if i % 3 == 0:
            data[i] = seed[i % len(seed)]
    for h in case["headers"]:
        blob = struct.pack("<I", h["pos"] + 16) + struct.pack("<I", h["size"]) + h["key"] + h["hints"]
        if h["pos"] < len(data):
            data[h["pos"] : h["pos"] + len(blob)] = blob[: max(0, len(data) - h["pos"])]
    data = bytes(data)
    fh = io.BytesIO(data)
    start = case["start"]
    if start is None:
        fh.seek(min(case["tellpos"], len(data)))
        eff_start = fh.tell()
    else:
        eff_start = start
        fh.seek(min(case["tellpos"] * 7, len(data)))  # a pre-positioned handle: an explicit start (0 included) must win
    kwargs = {}
    if case["maxrange"] is not None:
        kwargs["maxrange"] = case["maxrange"]
    if start == 0 and case["tellpos"] % 2:
        got = lib(lambda: list(artifact.iter_artifactkit_payloads(fh, **kwargs)), what="iter_artifactkit_payloads")  # documented default
    else:
        if case["tellpos"] % 3 == 0:
            got = lib(lambda: list(artifact.iter_artifactkit_payloads(fh, start, **kwargs)), what="iter_artifactkit_payloads")
        elif case["tellpos"] % 3 == 1:
            got = lib(lambda: list(artifact.iter_artifactkit_payloads(fobj=fh, start_offset=start, **kwargs)), what="iter_artifactkit_payloads")
        else:
            got = lib(lambda: list(artifact.iter_artifactkit_payloads(fh, start, case["maxrange"])), what="iter_artifactkit_payloads")
    want = ref_artifact_scan(data, eff_start, case["maxrange"])
    ctx = lambda: f"data={data.hex()} start={start} maxrange={case['maxrange']} got={[g.offset for g in got]} want={want}"
    check([g.offset for g in got] == want, "artifact:offsets", ctx)
    full = 0
    for g in got:
        p = g.offset
        if p + 20 <= len(data):
            full += 1
            size = struct.unpack("<I", data[p + 4 : p + 8])[0]
            key = data[p + 8 : p + 12]
            enc = data[p + 20 : p + 20 + size]
            pay = bytes(b ^ key[i % 4] for i, b in enumerate(enc))
            eq(g.size, size, "artifact:size", f"size at {p}")
            eq(g.xorkey, key, "artifact:key", f"key at {p}")
            eq(g.hints, data[p + 12 : p + 20], "artifact:hints", f"hints at {p}")
            eq(bytes(g.payload), pay, "artifact:payload", f"payload at {p} key={key.hex()} size={size}")
    stats.note(
        case,
        full > 0,
        classes=[f"hits_{min(len(got), 3)}", "maxrange" if case["maxrange"] is not None else "no_maxrange", "start_none" if start is None else "start_given"],
    )


def large_enumerate(tier, shard, nshards):
    def gen():
        for size in (65536 + 9, 131072 + 9, 300000, 1048576):
            for needle in (b"\x00\x01\x00\x01\x00\x02\x00", b"\xff\xff\xff", b"Z"):
                yield {"size": size, "needle": needle}

    return shard_iter(gen(), shard, nshards)


def large_execute(case, stats):
    """Needles planted around 64 KiB / 128 KiB and near the end of large files (default read buffer)."""
    from dissect.cobaltstrike import utils

    n = case["needle"]
    hay = bytearray(b"\x41" * case["size"])
    for pos in (0, 8190, 65530, 65536 - len(n), 65536, 131070, case["size"] - len(n)):
        if 0 <= pos and pos + len(n) <= len(hay):
            hay[pos : pos + len(n)] = n
    hay = bytes(hay)
    for start, limit in ((0, None), (65531, None), (0, 70000), (100, 1024)):
        check_scan(utils, hay, n, None, start, limit)
    # ArtifactKit headers on and around 64 KiB / 128 KiB boundaries of a large file
    from dissect.cobaltstrike import artifact

    for delta in (-3, -2, -1, 0, 1):  # one file per alignment, so that the planted headers do not overlap
        data = bytearray(b"\x90" * min(case["size"], 140000))
        planted = [100, 65536 + delta, 65600, 131072 + delta]
        for pos in planted:
            if pos + 40 <= len(data):
                data[pos : pos + 20] = struct.pack("<II", pos + 16, 8) + b"\x01\x02\x03\x04" + b"HINTHINT"
        data = bytes(data)
        for start in (0, 7):
            got = lib(lambda: [a.offset for a in artifact.iter_artifactkit_payloads(io.BytesIO(data), start)], what="iter_artifactkit_payloads (large file)")
            want = ref_artifact_scan(data, start, None)
            check([p_ for p_ in planted if p_ + 40 <= len(data) and p_ >= start] == want, "harness:planted", f"planted headers {planted} vs reference scan {want}")
            check(got == want, "artifact:offsets", lambda: f"large file ({len(data)} bytes), start {start}: got {got}, expected {want}")
    stats.note(case, True, classes=["large_haystack"])


SUBS = [
    Sub("scan_large", large_execute, enumerate=large_enumerate, exhaustive=True),
    Sub("scan_exhaustive", scan_enum_execute, enumerate=scan_enumerate, exhaustive=True),
    Sub("scan_random", scan_execute, strategy=scan_strategy, examples={"quick": 3200, "thorough": 64000}),
    Sub("artifactkit", ak_execute, strategy=ak_strategy, examples={"quick": 3200, "thorough": 64000}),
]
