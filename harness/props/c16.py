"""C16 - raw HTTP messages are parsed into exactly their parts."""

from hypothesis import strategies as st

from .. import strategies as S
from ..oracle import Raised, check, eq, lib
from ..ref import httpwire as W
from ..runner import Sub

PROPERTY = "C16"
LEVEL = "exploration"
RULE = (
    "Messages generated from parts and serialised by an independent wire serialiser: methods (tokens), ASCII paths "
    "('/' + segments over printable non-space ASCII without '?' and '#', not starting with '//'), parameter maps "
    "(unique keys, any key/value bytes, non-empty values, percent-encoded with upper/lower hex, space as %20 or '+'), "
    "0-8 unique 'Key: value' headers (values may contain ': '), bodies with CRLFCRLF / NUL / arbitrary bytes; "
    "responses with status 100-999 and single-token reasons; malformed start lines with 0, 1, 2 or >= 4 tokens. "
    "Oracle: parsed parts == generated parts; malformed -> ValueError. Non-trivial: body containing CRLFCRLF or NUL, "
    "or a percent-encoded parameter byte, or >= 2 headers. Distinct by content."
)
ASSUMPTIONS = [
    "header keys contain no ': ' and no CR/LF; header values contain no CR/LF; methods do not start with HTTP/ (that prefix marks a status line)",
    "parameter keys are unique and values non-empty (blank values are dropped by design)",
]

PATH_CHARS = "".join(chr(c) for c in range(0x21, 0x7F) if chr(c) not in "?#")
TOKEN = "ABCDEFGHIJKLMNOPQRSTUVWXYZabcdefghijklmnopqrstuvwxyz0123456789-_"

# a start-line token is any run of bytes without the six ASCII whitespace bytes; bytes that only *text* functions treat
# as whitespace (U+001C-1F, U+0085, U+00A0 under latin-1) or as digits/letters are ordinary token bytes
_ASCII_WS = b" \t\n\r\x0b\x0c"
_TEXT_WS = [0x1C, 0x1D, 0x1E, 0x1F, 0x85, 0xA0]
_wide_byte = st.one_of(st.sampled_from(_TEXT_WS + [0x00, 0x7F, 0x80, 0xB2, 0xB9, 0xFF]), st.integers(0, 255)).filter(lambda c: c not in _ASCII_WS)
wide_token = st.lists(st.one_of(_wide_byte, st.sampled_from(list(TOKEN.encode()))), min_size=1, max_size=8).map(bytes)
header_key = st.text(alphabet=TOKEN, min_size=1, max_size=12).map(lambda s: s.encode())
header_val = st.one_of(
    st.text(alphabet="".join(chr(c) for c in range(0x20, 0x7F)), max_size=30).map(lambda s: s.encode()),
    st.binary(max_size=20).map(lambda b: b.replace(b"\r", b"r").replace(b"\n", b"n")),
    st.sampled_from([b"a: b", b": ", b" leading", b"trailing ", b"", b"x: y: z"]),
)
# headers that mean something to an HTTP implementation: the parser reports the message as it is, it does not act on them
semantic_header = st.one_of(
    st.tuples(st.sampled_from([b"Content-Length", b"content-length", b"CONTENT-LENGTH", b"Content-length"]), st.sampled_from([b"0", b"1", b"4", b"007", b"16", b"100000", b"-1", b"4, 4", b"0x10"])),
    st.tuples(st.sampled_from([b"Transfer-Encoding", b"transfer-encoding", b"TE"]), st.sampled_from([b"chunked", b"gzip, chunked", b"identity"])),
    st.tuples(st.sampled_from([b"Content-Encoding", b"Content-Type", b"Connection", b"Expect", b"Host", b"Cookie", b"Upgrade"]), st.sampled_from([b"gzip", b"multipart/form-data; boundary=x", b"close", b"100-continue", b"a.example:8080", b"a=b; c=d", b"h2c"])),
)
headers = st.lists(st.one_of(st.tuples(header_key, header_val), st.tuples(header_key, header_val), semantic_header), max_size=8, unique_by=lambda t: t[0])
body = st.one_of(st.just(b""), S.binary(0, 60), st.sampled_from([b"\r\n\r\n", b"a\r\n\r\nb", b"\x00\x00", b"\r\n", b"GET / HTTP/1.1\r\n\r\n"]), st.tuples(S.binary(0, 20), S.binary(0, 20)).map(lambda t: t[0] + b"\r\n\r\n" + t[1]))
# the path is reported as it is on the wire: percent-escapes in it (of any byte, reserved or not, either hex case,
# complete or not) are not decoded, normalised or re-cased
_pct = st.one_of(
    st.tuples(st.integers(0, 255), st.sampled_from(["%%%02x", "%%%02X"])).map(lambda t: t[1] % t[0]),
    st.sampled_from(["%70", "%2D", "%2e", "%7E", "%5f", "%41", "%2F", "%3B", "%25", "%00", "%", "%4", "%zz", "%2", "%%"]),
)
_segment = st.one_of(st.text(alphabet=PATH_CHARS, max_size=8), st.lists(st.one_of(_pct, st.text(alphabet=TOKEN + ".~", max_size=4)), min_size=1, max_size=4).map("".join))
path = st.lists(_segment, min_size=1, max_size=4).map(lambda segs: ("/" + "/".join(segs)).encode()).filter(lambda p: not p.startswith(b"//"))
pkey = st.one_of(st.text(alphabet=TOKEN, min_size=1, max_size=8).map(lambda s: s.encode()), S.binary(0, 8))
pval = st.one_of(st.text(alphabet=TOKEN + "+/= ", min_size=1, max_size=24).map(lambda s: s.encode()), S.binary(1, 24))
params = st.lists(st.tuples(pkey, pval), max_size=5, unique_by=lambda t: t[0])
# (only a first line starting with "HTTP/" is a status line: methods that merely start with the letters "http" are methods)
method = st.one_of(st.sampled_from([b"GET", b"POST", b"PUT", b"DELETE", b"OPTIONS", b"get", b"X-CUSTOM", b"HTTP", b"HTTPX", b"http-get", b"HttpPost", b"HTT", b"HTTP1.1"]), st.text(alphabet=TOKEN, min_size=1, max_size=8).map(lambda s: s.encode()), wide_token).filter(
    lambda m: not m.upper().startswith(b"HTTP/")
)


def request_strategy():
    return st.fixed_dictionaries(
        {
            "method": method,
            "path": path,
            "params": params,
            "headers": headers,
            "body": body,
            "space_plus": st.booleans(),
            "lower_hex": st.booleans(),
            "version": st.sampled_from([b"HTTP/1.1", b"HTTP/1.0"]),
        }
    )


def request_execute(case, stats):
    from dissect.cobaltstrike import c2

    prm = [tuple(p) for p in case["params"]]
    hdr = [tuple(h) for h in case["headers"]]
    wire = W.request(case["method"], case["path"], prm, hdr, case["body"], version=case["version"], space_plus=case["space_plus"], lower_hex=case["lower_hex"])
    r = lib(c2.parse_raw_http, wire, what="parse_raw_http")
    ctx = f"wire={wire[:300]!r}"
    check(isinstance(r, c2.HttpRequest), "request:type", f"parsed as {type(r).__name__}; {ctx}")
    eq(r.method, case["method"], "request:method", "method; " + ctx)
    if r.uri != case["path"]:
        key = "request:path_semicolon" if b";" in case["path"] else "request:path"
        check(False, key, f"path: got {r.uri!r}, expected {case['path']!r}; {ctx}")
    want_params = dict(prm)
    if dict(r.params) != want_params:
        check(False, "request:params", f"params: got {dict(r.params)!r}, expected {want_params!r}; {ctx}")
    if dict(r.headers) != dict(hdr):
        key = "request:no_headers_phantom_entry" if not hdr else "request:headers"
        check(False, key, f"headers: got {dict(r.headers)!r}, expected {dict(hdr)!r}; {ctx}")
    eq(list(r.headers.keys()), [k for k, _ in hdr], "request:header_order", "header order; " + ctx)
    eq(r.body, case["body"], "request:body", "body; " + ctx)
    # every parse stands on its own: changing a returned object must not influence a later parse of the same bytes
    try:
        r.params[b"__verif_added"] = b"1"
        r.headers[b"X-Verif-Added"] = b"1"
    except TypeError:
        pass
    r2 = lib(c2.parse_raw_http, wire, what="parse_raw_http (second parse)")
    if dict(r2.params) != want_params or dict(r2.headers) != dict(hdr) or r2.uri != case["path"] or r2.body != case["body"]:
        check(False, "request:parse_depends_on_history", f"second parse of the same bytes differs after the first result was modified: params={dict(r2.params)!r} headers={dict(r2.headers)!r}; {ctx}")
    enc = any(b not in W.UNRESERVED for k, v in prm for b in k + v)
    stats.note(
        case,
        b"\r\n\r\n" in case["body"] or b"\x00" in case["body"] or enc or len(hdr) >= 2,
        classes=["params%d" % min(len(prm), 3), "headers%d" % min(len(hdr), 3), "pct_encoded" if enc else "plain_params", "high_byte_param" if any(b >= 0x80 for k, v in prm for b in k + v) else "ascii_params", "body_crlfcrlf" if b"\r\n\r\n" in case["body"] else "body_plain"],
    )


def response_strategy():
    return st.fixed_dictionaries(
        {
            "status": st.one_of(st.sampled_from([100, 200, 204, 301, 404, 500, 999]), st.integers(100, 999)),
            "reason": st.one_of(st.sampled_from([b"OK", b"Found", b"ok", b"200"]), st.text(alphabet=TOKEN, min_size=1, max_size=10).map(lambda s: s.encode()), wide_token),
            "headers": headers,
            "body": body,
            "version": st.sampled_from([b"HTTP/1.1", b"HTTP/1.0", b"http/1.1", b"HTTP/2"]),
        }
    )


def response_execute(case, stats):
    from dissect.cobaltstrike import c2

    hdr = [tuple(h) for h in case["headers"]]
    wire = W.response(case["status"], case["reason"], hdr, case["body"], version=case["version"])
    r = lib(c2.parse_raw_http, wire, what="parse_raw_http")
    ctx = f"wire={wire[:300]!r}"
    check(isinstance(r, c2.HttpResponse), "response:type", f"parsed as {type(r).__name__}; {ctx}")
    eq(r.status, case["status"], "response:status", "status; " + ctx)
    eq(r.reason, case["reason"], "response:reason", "reason; " + ctx)
    if dict(r.headers) != dict(hdr):
        key = "request:no_headers_phantom_entry" if not hdr else "response:headers"
        check(False, key, f"headers: got {dict(r.headers)!r}, expected {dict(hdr)!r}; {ctx}")
    eq(r.body, case["body"], "response:body", "body; " + ctx)
    check(r.request is None, "response:request", "request must default to None")
    stats.note(case, b"\r\n\r\n" in case["body"] or b"\x00" in case["body"] or len(hdr) >= 2, classes=["headers%d" % min(len(hdr), 3)])


def malformed_strategy():
    tok = st.text(alphabet=TOKEN + "/.", min_size=1, max_size=8).map(lambda s: s.encode())
    return st.fixed_dictionaries(
        {
            "tokens": st.one_of(st.lists(tok, max_size=2), st.lists(tok, min_size=4, max_size=7)),
            "http_prefix": st.booleans(),
            # 3 "parts" joined by a byte that is whitespace only for text functions are ONE token: still malformed
            "sep": st.sampled_from([b" ", b"  ", b"\t", b" ", b"\x1f", b"\x85", b"\xa0", b"\x1c"]),
            "three": st.booleans(),
            "headers": headers,
            "body": body,
            "no_crlf": st.booleans(),
        }
    )


def malformed_execute(case, stats):
    from dissect.cobaltstrike import c2

    toks = list(case["tokens"])
    if case["http_prefix"] and toks:
        toks[0] = b"HTTP/1.1"
    if case.get("three") and case["sep"] not in (b" ", b"  ", b"\t"):
        toks = (toks + [b"/index.html", b"HTTP/1.1", b"200"])[:3]
    first = case["sep"].join(toks)
    if len(first.split()) == 3:
        stats.discard()
        return
    if case["no_crlf"]:
        wire = first
    else:
        wire = b"\r\n".join([first] + [k + b": " + v for k, v in case["headers"]]) + b"\r\n\r\n" + case["body"]
    r = lib(c2.parse_raw_http, wire, allow=(ValueError,), what="parse_raw_http")
    check(isinstance(r, Raised), "malformed:accepted", f"start line with {len(first.split())} tokens accepted: {wire[:200]!r} -> {r!r}")
    stats.note(case, True, classes=["tokens%d" % min(len(first.split()), 4), "text_whitespace_separator" if case["sep"][0] > 0x20 or case["sep"] == b"\x1f" or case["sep"] == b"\x1c" else "ascii_separator", "status_line" if case["http_prefix"] else "request_line"])


def bad_status_strategy():
    return st.fixed_dictionaries({"status": st.one_of(st.text(alphabet=TOKEN, min_size=1, max_size=5).filter(lambda s: not s.isdigit()).map(lambda s: s.encode()), st.binary(min_size=1, max_size=4).filter(lambda b: not b.strip().isdigit() and len(b.split()) == 1 and b.strip() == b))})


def bad_status_execute(case, stats):
    from dissect.cobaltstrike import c2

    wire = b"HTTP/1.1 " + case["status"] + b" OK\r\n\r\n"
    r = lib(c2.parse_raw_http, wire, allow=(ValueError,), what="parse_raw_http")
    if not isinstance(r, Raised):
        # python's int() accepts a few spellings beyond plain digits; anything else must be rejected
        try:
            ok = int(case["status"].decode()) == r.status
        except Exception:
            ok = False
        check(ok, "malformed:bad_status_accepted", f"{wire!r} -> {r!r}")
    stats.note(case, True, classes=["bad_status"])


# ------------------------------------------------------------------------------------------ atheris (thorough)
import collections

COUNTERS = collections.Counter()


class _Reader:
    """Decodes fuzz bytes into structured arguments (a tiny FuzzedDataProvider that also works on replay)."""

    def __init__(self, data):
        self.d = bytes(data)
        self.p = 0

    def byte(self):
        if self.p >= len(self.d):
            return 0
        b = self.d[self.p]
        self.p += 1
        return b

    def blob(self, maxlen):
        n = self.byte() % (maxlen + 1)
        out = self.d[self.p : self.p + n]
        self.p += n
        return out

    def rest(self):
        out = self.d[self.p :]
        self.p = len(self.d)
        return out


def fuzz_http(data: bytes):
    """Mode 0: the bytes ARE the wire message (must parse or raise ValueError). Mode 1/2: the bytes are decoded into
    request / response parts, serialised by the reference serialiser and must parse back to exactly those parts."""
    from dissect.cobaltstrike import c2
    from ..runner import Stats

    r = _Reader(data)
    mode = r.byte() % 3
    if mode == 0:
        wire = r.rest()
        out = lib(c2.parse_raw_http, wire, allow=(ValueError,), what="parse_raw_http(raw fuzz bytes)")
        COUNTERS["raw_rejected" if isinstance(out, Raised) else "raw_parsed"] += 1
        return
    tok = lambda b: bytes(TOKEN.encode()[c % len(TOKEN)] for c in b) or b"x"
    nh = r.byte() % 5
    hdrs = []
    for i in range(nh):
        k = tok(r.blob(6)) + str(i).encode()
        v = r.blob(12).replace(b"\r", b"r").replace(b"\n", b"n")
        hdrs.append((k, v))
    if mode == 1:
        method = tok(r.blob(5))
        if method.upper().startswith(b"HTTP/"):
            method = b"X" + method
        segs = [bytes(PATH_CHARS.encode()[c % len(PATH_CHARS)] for c in r.blob(6)) for _ in range(1 + r.byte() % 3)]
        path = b"/" + b"/".join(segs)
        if path.startswith(b"//"):
            path = b"/a" + path[1:]
        prm = []
        for i in range(r.byte() % 4):
            prm.append((r.blob(5) + str(i).encode(), r.blob(10) or b"v"))
        flags = r.byte()
        case = {"method": method, "path": path, "params": prm, "headers": hdrs, "body": r.rest(), "space_plus": bool(flags & 1), "lower_hex": bool(flags & 2), "version": b"HTTP/1.1"}
        request_execute(case, Stats())
        COUNTERS["request"] += 1
    else:
        status = 100 + (r.byte() * 256 + r.byte()) % 900
        case = {"status": status, "reason": tok(r.blob(6)), "headers": hdrs, "body": r.rest(), "version": b"HTTP/1.1"}
        response_execute(case, Stats())
        COUNTERS["response"] += 1


def fuzz_execute(case, stats):
    fuzz_http(case["data"])
    stats.note(case, len(case["data"]) > 4, classes=["fuzz_replay"])


def fuzz_custom(tier, seed, shard, nshards, stats, rec):
    if tier != "thorough":
        return
    from ..fuzz.run import campaign

    seeds = []
    if shard % 2 == 0:
        seeds = [b"\x00GET /a?b=c HTTP/1.1\r\nHost: x\r\n\r\nbody", b"\x00HTTP/1.1 200 OK\r\nA: b\r\n\r\n", b"\x01\x02\x03abc\x02xy\x03GET\x01\x02ab\x01\x01k\x02vv\x00body", b"\x02\x01\x02ab\x03xyz\x00\xc8\x02OK..."]
    campaign("harness.props.c16", "fuzz_http", seeds, runs=150000, seed=seed, stats=stats, max_len=512)
    stats.note({"shard": shard, "seeded": bool(seeds)}, True, classes=["atheris_campaign_seeded" if seeds else "atheris_campaign_empty_corpus"])


def large_enumerate(tier, shard, nshards):
    from ..runner import shard_iter

    def gen():
        for hsize in (16000, 49152, 65400, 65500, 65520, 65530, 65536, 65560, 100000, 300000):
            yield {"kind": "request", "hsize": hsize, "bsize": 10}
            yield {"kind": "response", "hsize": hsize, "bsize": 70000}
        yield {"kind": "request", "hsize": 20, "bsize": 300000}

    return shard_iter(gen(), shard, nshards)


def large_execute(case, stats):
    """Messages whose header block or body is large (around and beyond 64 KiB)."""
    from ..runner import Stats

    big = (b"QUJD" * (case["hsize"] // 4 + 1))[: case["hsize"]]
    hdrs = [(b"Host", b"example.com"), (b"Cookie", big), (b"X-After", b"1")]
    body = (b"\x00\r\n\r\nBODY" * (case["bsize"] // 10 + 1))[: case["bsize"]]
    if case["kind"] == "request":
        request_execute({"method": b"POST", "path": b"/submit.php", "params": [(b"id", b"1234")], "headers": hdrs, "body": body, "space_plus": False, "lower_hex": False, "version": b"HTTP/1.1"}, Stats())
    else:
        response_execute({"status": 200, "reason": b"OK", "headers": hdrs, "body": body, "version": b"HTTP/1.1"}, Stats())
    stats.note(case, True, classes=["large_" + case["kind"]])


SUBS = [
    Sub("large_messages", large_execute, enumerate=large_enumerate, exhaustive=True),
    Sub("atheris_parts_and_raw", fuzz_execute, custom=fuzz_custom, shards={"quick": 1, "thorough": 4}),
    Sub("requests", request_execute, strategy=request_strategy, examples={"quick": 6400, "thorough": 128000}),
    Sub("responses", response_execute, strategy=response_strategy, examples={"quick": 3200, "thorough": 64000}),
    Sub("malformed", malformed_execute, strategy=malformed_strategy, examples={"quick": 2400, "thorough": 48000}),
    Sub("bad_status", bad_status_execute, strategy=bad_status_strategy, examples={"quick": 800, "thorough": 16000}),
]
