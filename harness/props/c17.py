"""C17 - Guardrails-protected configurations are recovered iff the checksum matches."""

import io
import random
import struct

from hypothesis import strategies as st

from .. import strategies as S
from ..oracle import Raised, check, eq, lib
from ..ref import detect, guard as G
from ..ref import pebuild, tlv, xorenc
from ..runner import Discard, Sub, Violation

PROPERTY = "C17"
LEVEL = "exploration"
RULE = (
    "CS-shaped configurations (PROTOCOL + settings incl. NUL-padded 64-512 byte string fields, <= 3000 bytes, padded "
    "to 6144 with zeros or random bytes) protected by an independent Guardrails protector (anchored to the sample): "
    "environmental keys of every length 2-256 (printable and arbitrary bytes), any non-empty ordered subset of the "
    "user/computer/domain/local-ip guard options + checksum, protected area at any offset >= 0 inside filler or a PE "
    "section, raw or XorEncoded. Faults: one corrupted byte of the masked configuration, stored checksum +-1, wrong "
    "guard XOR byte. Oracle: from_bytes recovers the settings, a key with the same key stream (no longer than the real key), guard settings, both "
    "offsets; faulted payloads give ValueError / metadata without configuration; every reported configuration "
    "satisfies checksum(config_block) == stored checksum. Non-trivial: key length != 15 and >= 2 guard options, or a "
    "fault case. Distinct by content."
)
ASSUMPTIONS = [
    "domain restricted to configurations where the all-zero aligned block is strictly the most frequent aligned "
    "block for the key length used (otherwise no decoder can recover the key); discards are counted",
    "environmental keys whose first 7 key-stream bytes are constant are excluded (the plain search would find the header)",
    "corruptions are placed outside the last 2048 bytes of the masked configuration (they key the guard area)",
]

SHORT, INT, PTR = 1, 2, 3


def config_strategy():
    field = st.tuples(st.sampled_from([8, 9, 10, 14, 15, 26, 27, 29, 30, 54, 7]), st.text(alphabet=S.printable, max_size=40), st.sampled_from([64, 128, 256, 512]))
    num = st.tuples(st.sampled_from([2, 3, 4, 5, 37, 38, 39, 43, 44, 45, 50]), st.sampled_from([SHORT, INT]), st.binary(min_size=4, max_size=4))
    return st.fixed_dictionaries(
        {
            "fields": st.lists(field, min_size=2, max_size=8, unique_by=lambda t: t[0]),
            "nums": st.lists(num, max_size=8, unique_by=lambda t: t[0]),
            "tail_random": st.booleans(),
            "seed": st.integers(0, 2**32 - 1),
            # (Hypothesis draws small integers far more often: the second branch spreads the same range evenly)
            # and about 40 % of Hypothesis' examples repeat an earlier prefix with an all-simplest tail: the simplest key
            # length is therefore a long one, not 2)
            "keylen": st.one_of(st.sampled_from([200, 143, 129, 256, 255, 128, 64, 32, 31, 16, 15, 4, 3, 2]), st.sampled_from([2, 3, 4, 5, 255, 256]), st.integers(0, 254).map(lambda n: 2 + (n * 97 + 198) % 255), st.integers(2, 256)),
            "key_printable": st.booleans(),
            # request a tie for first place between the padding block and a repeated block; "long_key" also moves the key
            # length to 129-256 (no multiple of it is searched, so nothing else can break the tie) and drops faults
            "tie": st.sampled_from([None, None, "any", "long_key", "long_key"]),
            # structure inside the key: a border (prefix == suffix, e.g. "host-…-host"), a repeated unit, almost periodic
            "key_shape": st.one_of(st.just(["random"]), st.tuples(st.sampled_from(["border", "periodic", "near_periodic"]), st.integers(1, 64)).map(list)),
            "options": st.lists(st.sampled_from([G.GUARD_USER, G.GUARD_COMPUTER, G.GUARD_DOMAIN, G.GUARD_LOCAL_IP]), min_size=1, max_size=4, unique=True),
            "optvals": st.lists(st.integers(0, 0xFFFF), min_size=4, max_size=4),
            # any position: small, arbitrary, and such that the config start / the config-guard boundary (the marker)
            # falls on or next to a multiple of the 8192-byte read size
            "offset": st.one_of(
                st.just(0),
                st.integers(0, 64),
                st.integers(0, 1500),
                st.integers(0, 20000),
                st.tuples(st.integers(1, 3), st.integers(-16, 16)).map(lambda t: max(0, t[0] * 8192 - 6144 + t[1])),
                st.tuples(st.integers(1, 2), st.integers(-16, 16)).map(lambda t: max(0, t[0] * 8192 + t[1])),
            ),
            "offset_is_view": st.booleans(),
            "trail": st.integers(0, 200),
            "container": st.sampled_from(["raw", "raw", "pe", "xorpe"]),
            "fault": st.sampled_from([None, None, "config_byte", "checksum_plus", "checksum_minus", "guard_key"]),
            # 12-byte look-alikes of the config/guard boundary elsewhere in the payload (the marker relation holds by chance
            # in real files too): they must not disturb what is reported for the real protected area
            "decoys": st.one_of(st.just([]), st.just([]), st.lists(st.tuples(st.sampled_from(["before", "after"]), st.integers(0, 10**6), st.integers(0, 3), st.binary(min_size=6, max_size=6)), min_size=1, max_size=2)),
            "fault_pos": st.integers(0, 4095),
            "fault_xor": st.integers(1, 255),
        }
    )


def build_plain(case, rnd):
    settings = [(1, SHORT, b"\x00\x08")]
    for idx, typ, val in case["nums"]:
        settings.append((idx, typ, val[:2] if typ == SHORT else val))
    for idx, text, size in case["fields"]:
        settings.append((idx, PTR, text.encode() + b"\x00" * (size - len(text.encode()))))
    body = tlv.encode(settings, terminator=True)
    body = body[:3000]
    if case["tail_random"]:
        # like the real sample: random bytes after the end of the settings, but keep a long NUL area too
        tail = rnd.randbytes(1024) + b"\x00" * (G.CONFIG_SIZE - len(body) - 1024)
    else:
        tail = b"\x00" * (G.CONFIG_SIZE - len(body))
    return body + tail, settings


def execute(case, stats):
    from dissect.cobaltstrike.beacon import BeaconConfig

    if case.get("tie") == "long_key":
        case = dict(case, keylen=129 + case["keylen"] % 128, tail_random=False, fault=None)
    rnd = random.Random(case["seed"])
    plain, settings = build_plain(case, rnd)
    K = case["keylen"]
    if case["key_printable"]:
        key = bytes(rnd.choice(b"abcdefghijklmnopqrstuvwxyz0123456789-") for _ in range(K))
    else:
        key = rnd.randbytes(K)
    shape = case.get("key_shape") or ["random"]
    if shape[0] == "border":
        b = max(1, min(shape[1], K // 2))
        key = key[: K - b] + key[:b]
    elif shape[0] in ("periodic", "near_periodic"):
        unit = key[: max(2, min(shape[1], K))]
        key = (unit * (K // len(unit) + 1))[:K]
        if shape[0] == "near_periodic":
            key = key[:-1] + bytes([key[-1] ^ 0x15])
    if len(set(G.keystream(key, 7))) == 1:
        raise Discard("constant key stream over the header")
    if b"\x00" in key and K <= 4:
        key = bytes(b or 1 for b in key)
    tie = False
    if case.get("tie") and not case["tail_random"] and K >= 16:
        # a value made of one repeated byte that fills exactly as many aligned K-byte blocks as remain zero padding: the
        # zero block shares first place with another block (both of the two most common blocks are tried as keys)
        o = len(tlv.encode(settings, terminator=False)) + 6
        a = -(-o // K) * K
        T = (G.CONFIG_SIZE - a) // K
        # aligned all-zero blocks inside the settings before the new value (NUL-padded fields) count as padding too
        head = tlv.encode(settings, terminator=False)
        r = sum(1 for i in range(0, a - K + 1, K) if not any(head[i : i + K]) and i + K <= len(head))
        if T >= 4 and (T + r) % 2 == 0 and o < 3000:
            cand = settings + [(32, PTR, b"\x90" * ((a - o) + ((T + r) // 2) * K))]
            body = tlv.encode(cand, terminator=True)
            if len(body) <= G.CONFIG_SIZE:
                cplain = body + b"\x00" * (G.CONFIG_SIZE - len(body))
                top = G.top_grams(cplain, K, 2, key)
                if len(top) == 2 and top[0][1] == top[1][1]:
                    tie, settings, plain = True, cand, cplain
    if not G.zero_gram_findable(plain, K, key):
        raise Discard("zero block is not the most frequent aligned block for this key length")
    options = [(o, case["optvals"][i]) for i, o in enumerate(case["options"])]
    fault = case["fault"]
    csum = None
    if fault == "checksum_plus":
        csum = G.checksum(plain) + 1
    elif fault == "checksum_minus":
        csum = G.checksum(plain) - 1
    mb, mg, stored = G.protect(plain, key, options, guard_pad=rnd.randbytes(64), guard_key=0x8B if fault == "guard_key" else 0x8A, csum=csum)
    if fault == "config_byte":
        pos = case["fault_pos"]
        mb = mb[:pos] + bytes([mb[pos] ^ case["fault_xor"]]) + mb[pos + 1 :]
    area = mb + mg
    filler = bytes([0x41]) * case["offset"]
    trail = rnd.randbytes(case["trail"])
    container = case["container"]
    ndecoys = 0
    starts = [b"\x00\x05\x00\x01\x00\x02", b"\x00\x06\x00\x01\x00\x02", b"\x00\x07\x00\x01\x00\x02", b"\x00\x08\x00\x02\x00\x04"]
    for where, pos, opt, a6 in case.get("decoys") or []:
        blob = bytes(a6) + bytes(x ^ y ^ 0x8A for x, y in zip(bytes(a6)[::-1], starts[opt]))
        if where == "before" and len(filler) >= 6200 and container == "raw":
            p = 6140 + pos % (len(filler) - 6140 - 12)
            filler = filler[:p] + blob + filler[p + 12 :]
            ndecoys += 1
        elif where == "after":
            trail = trail + bytes(40)
            p = 14 + pos % (len(trail) - 26)
            trail = trail[:p] + blob + trail[p + 12 :]
            ndecoys += 1
    if container == "raw":
        view = filler + area + trail
        data = view
        off = len(filler)
        xorencoded = False
    else:
        img0, info0 = pebuild.build_pe(arch="x64", sections=((".text", b"\xcc" * 64), (".data", b"")))
        base = info0["sections"][1]["raw_ptr"]
        if case.get("offset_is_view") and case["offset"] >= base:
            filler = bytes([0x41]) * (case["offset"] - base)  # place the area at this offset of the searched view
        img, info = pebuild.build_pe(arch="x64", sections=((".text", b"\xcc" * 64), (".data", filler + area + trail)))
        off = info["sections"][1]["raw_ptr"] + len(filler)
        view = img
        if container == "pe":
            data = img
            xorencoded = False
        else:
            data = xorenc.build_stage(img, rnd.randbytes(4), b"\xfc" * 20, marker=True)
            xorencoded = True
    # domain guards: detection ambiguity / slow path belong to other properties
    must, may = detect.validating(data)
    if detect.marker_count(data) > 8 or (xorencoded and (must != [23] or may)) or (not xorencoded and (must or may)):
        raise Discard("ambiguous XorEncoded detection")
    # the plain search must not find anything under the default keys (otherwise the Guardrails path is never taken)
    for k in (0x69, 0x2E, 0x00):
        if tlv.xor1(tlv.HEADER, k) in view:
            raise Discard("accidental plain header")

    # the key list given to the constructors is about the plain search (which finds nothing here): whatever it is, the
    # protected configuration, its environmental key and the guard XOR byte are recovered alike
    key_lists = [None, None, [b"\x69", b"\x2e", b"\x00"], [b"\x00"], [b"\x2e", b"\x69"], [b"\x69"]]
    xk = key_lists[(K + len(options) + off + len(data)) % len(key_lists)]
    if xk is None:
        r = lib(BeaconConfig.from_bytes, data, allow=(ValueError,), what="BeaconConfig.from_bytes(guardrails payload)")
    else:
        stats.count("explicit_xor_keys")
        r = lib(BeaconConfig.from_bytes, data, xor_keys=xk, allow=(ValueError,), what=f"BeaconConfig.from_bytes(guardrails payload, xor_keys={xk})")
    ctx = lambda: f"keylen={K} key={key[:16].hex()}... options={options} offset={off} container={container} fault={fault} xor_keys={xk}"
    if fault is not None:
        if not isinstance(r, Raised):
            # a configuration was reported although the checksum cannot match
            g = r.guardrails
            raise Violation("guard:reported_despite_mismatch", f"fault {fault}: a configuration was reported (guardrails={g is not None}); {ctx()}")
    else:
        if isinstance(r, Raised):
            raise Violation("guard:not_recovered", f"protected configuration not recovered: {r.exc!r}; {ctx()}")
        g = r.guardrails
        check(g is not None, "guard:no_metadata", f"configuration found without guardrails metadata; {ctx()}")
        eq(bytes(r.config_block), plain, "guard:config_block", "recovered configuration block; " + ctx())
        got = [(s.index.value, s.type.value, bytes(s.value)) for s in r.settings_tuple]
        eq(got, [(i, t, v) for i, t, _l, v in tlv.decode(plain)], "guard:settings", "recovered settings; " + ctx())
        pk = bytes(g.payload_xor_key)
        check(1 <= len(pk) <= len(key) and G.keystream(pk, G.CONFIG_SIZE) == G.keystream(key, G.CONFIG_SIZE), "guard:payload_xor_key", lambda: f"payload_xor_key {pk[:40]!r} has a different key stream than the environmental key; {ctx()}")
        eq(g.checksum, stored, "guard:checksum_value", "stored checksum; " + ctx())
        eq((g.beacon_config_offset, g.guard_config_offset), (off, off + G.CONFIG_SIZE), "guard:offsets", "offsets; " + ctx())
        want_settings = [(o, 2 if o == G.GUARD_LOCAL_IP else 1, v) for o, v in options] + [(G.GUARD_CHECKSUM, 2, stored)]
        got_settings = [(s.option.value, s.type.value, int.from_bytes(bytes(s.value), "big")) for s in g.settings]
        eq(got_settings, want_settings, "guard:guard_settings", "guard settings; " + ctx())
        eq(bytes(g.masked_beacon_config), mb, "guard:masked_beacon", "masked beacon config")
        eq(r.xorencoded, False, "guard:xorencoded_flag", "xorencoded flag (guardrails path does not set it)") if not xorencoded else None
    # universal invariant
    if not isinstance(r, Raised) and r.guardrails is not None:
        if G.checksum(bytes(r.config_block)) != r.guardrails.checksum:
            raise Violation("guard:checksum_invariant", f"reported configuration has checksum {G.checksum(bytes(r.config_block)):#x} but the guard configuration stores {r.guardrails.checksum:#x}; {ctx()}")
    stats.note(
        case,
        (K != 15 and len(options) >= 2) or fault is not None,
        classes=["marker_near_8k_boundary" if (off + G.CONFIG_SIZE) % 8192 < 16 or (off + G.CONFIG_SIZE) % 8192 > 8176 else "marker_elsewhere", "keylen_%s" % ("2-8" if K <= 8 else "9-32" if K <= 32 else "33-128" if K <= 128 else "129-256"), "container_" + container, "top_block_tie" if tie else "zero_block_strictly_top", "decoy_markers_%d" % ndecoys, "key_" + shape[0], "fault_" + str(fault), "options%d" % len(options), "first_option_%d" % options[0][0]],
    )


def anchors():
    """The reference protector must reproduce the sample: unmasking with 'desktop-r4vgq8o' gives a block whose
    reference checksum equals the checksum stored in the (reference-unmasked) guard configuration."""
    from .. import samples

    d = samples.sample("guardrails_beacon")
    off = 314000
    mb, mg = d[off : off + G.CONFIG_SIZE], d[off + G.CONFIG_SIZE : off + G.CONFIG_SIZE + G.GUARD_SIZE]
    plain, guard = G.unprotect(mb, mg, b"desktop-r4vgq8o")
    assert plain.startswith(tlv.HEADER), plain[:8]
    assert guard.startswith(bytes.fromhex("000600010002")), guard[:12].hex()
    stored = struct.unpack(">I", guard[14:18])[0]
    assert stored == 0xA5AD1 == G.checksum(plain), (hex(stored), hex(G.checksum(plain)))
    mb2, mg2, c = G.protect(plain, b"desktop-r4vgq8o", [(G.GUARD_COMPUTER, 1)])
    assert mb2 == mb and c == stored and mg2[:20] == mg[:20]


SUBS = [Sub("protect_recover", execute, strategy=config_strategy, examples={"quick": 640, "thorough": 12800})]
