"""C19 - the beacon client keeps a stable identity and dispatches tasks exactly once."""

import hashlib
import random

from hypothesis import strategies as st
from hypothesis.stateful import RuleBasedStateMachine, initialize, precondition, rule

from .. import cfgbuild, keys
from ..oracle import Raised, check, eq, lib
from ..runner import Sub, Violation

PROPERTY = "C19"
LEVEL = "exploration"
RULE = (
    "Identity: requested beacon ids over all integers in +-2^34 plus boundary values, user/computer/process names "
    "over unicode text, sleeptime 0..2^31 and jitter 0..99; oracle: ValueError or even id in [0,2^31) equal to "
    "metadata.bid, deterministic aes_rand / SHA-256 key split, metadata encrypts under RSA-1024 and decrypts back, 200 "
    "sleep draws inside the jitter band. Dispatch: RuleBasedStateMachine registering decorator handlers (0-3 per "
    "command, incl. None), subclass methods on_<command> / on_catch_all and catch-all decorators, then feeding 1-12 "
    "tasks through the REAL _beacon_loop (get_task / send_callback overridden, time.sleep stubbed, left through the "
    "KeyboardInterrupt path); model = every handler of the command once per task, catch-alls only when there is none. "
    "Non-trivial history: >= 2 tasks of a command that has both a decorator handler and an on_<command> method, or "
    ">= 3 tasks with a catch-all; identity case non-trivial when a name is non-ASCII or the id is out of range/odd."
)
ASSUMPTIONS = [
    "tasks carry commands of the BeaconCommand enum (command 6 = NOOP is filtered by get_task and not fed to the loop)",
    "the loop is driven through a subclass overriding get_task/send_callback; client.time is replaced by a stub",
]

CONFIG_BLOCK = None


def config():
    from dissect.cobaltstrike.beacon import BeaconConfig

    global CONFIG_BLOCK
    if CONFIG_BLOCK is None:
        CONFIG_BLOCK = cfgbuild.http_block(keys.der_public("rsa_1024_a"), sleeptime=5000, jitter=10)
    return BeaconConfig(CONFIG_BLOCK)


class _FakeTime:
    def __init__(self):
        self.slept = []

    def sleep(self, s):
        self.slept.append(s)

    def time(self):
        return 1700000000.0

    def __getattr__(self, name):
        import time as _t

        return getattr(_t, name)


class patched_client_module:
    """Stubs client.time and keeps the global RNG state (run() reseeds the global random module)."""

    def __enter__(self):
        from dissect.cobaltstrike import client

        self.client = client
        self.old_time = client.time
        self.fake = _FakeTime()
        client.time = self.fake
        self.rnd = random.getstate()
        import logging

        self.level = client.logger.level
        self.disabled = logging.root.manager.disable
        logging.disable(logging.CRITICAL)
        return self

    def __exit__(self, *exc):
        self.client.time = self.old_time
        random.setstate(self.rnd)
        import logging

        logging.disable(self.disabled)
        self.client.logger.setLevel(self.level)


# ------------------------------------------------------------------------------------------ identity
names = st.one_of(
    st.text(alphabet="abcdefghijklmnopqrstuvwxyzABCDEFGHIJKLMNOPQRSTUVWXYZ0123456789-_. ", max_size=20),
    st.text(max_size=30),
    st.text(alphabet="éü中文\U0001f600Ж", min_size=1, max_size=60),
    st.text(min_size=40, max_size=120),
)
ids = st.one_of(
    st.none(),  # random id chosen by the client itself
    st.sampled_from([0, 1, 2, 3, 2**31 - 2, 2**31 - 1, 2**31, 2**31 + 1, 2**32 - 1, 2**32, 2**32 + 1, -1, -2, 2**33 + 6, 1234]),
    st.integers(-(2**34), 2**34),
    st.integers(0, 2**31 - 1),
)


def identity_strategy():
    return st.fixed_dictionaries(
        {
            "beacon_id": ids,
            "user": names,
            "computer": names,
            "process": names,
            "sleeptime": st.one_of(st.sampled_from([0, 1, 1000, 60000, 2**31 - 1]), st.integers(0, 2**31 - 1)),
            "jitter": st.integers(0, 99),
            "use_config_sleep": st.booleans(),
            "resleep": st.lists(st.tuples(st.one_of(st.sampled_from([0, 1, 1000, 60000]), st.integers(0, 2**31 - 1)), st.integers(0, 99)), max_size=2),
            "rng": st.integers(0, 2**32 - 1),
        }
    )


def identity_execute(case, stats):
    from dissect.cobaltstrike import c2
    from dissect.cobaltstrike.client import HttpBeaconClient

    priv = keys.rsa("rsa_1024_a")
    bid = case["beacon_id"]
    kw = dict(dry_run=True, beacon_id=bid, user=case["user"], computer=case["computer"], process=case["process"])
    if not case["use_config_sleep"]:
        kw.update(sleeptime=case["sleeptime"], jitter=case["jitter"])
    with patched_client_module():
        random.seed(case["rng"])
        cl = HttpBeaconClient()
        r = lib(cl.run, config(), allow=(ValueError,), what="HttpBeaconClient.run(dry_run=True)", **kw)
        if bid is None:
            check(not isinstance(r, Raised), "identity:random_id_rejected", f"run() without beacon_id raised {r!r}")
            got = cl.beacon_id
            check(isinstance(got, int) and got % 2 == 0 and 0 <= got < 2**31, "identity:id_range", f"self-chosen id {got}")
            eq(int(cl.metadata.bid), got, "identity:metadata_bid", "metadata.bid")
            stats.note(case, True, classes=["random_id"])
            return
        if isinstance(r, Raised):
            # rejecting is fine for ids that do not normalise into range; an in-range id must be accepted
            even = bid - bid % 2
            check(not (0 <= even <= 0x7FFFFFFF and 0 <= bid), "identity:valid_id_rejected", f"beacon_id {bid} rejected: {r.exc!r}")
            stats.note(case, True, classes=["rejected"])
            return
        got = cl.beacon_id
        check(isinstance(got, int) and got % 2 == 0 and 0 <= got < 2**31, "identity:id_range", f"requested {bid} -> presented {got}")
        if 0 <= bid < 2**31:
            eq(got, bid - bid % 2, "identity:id_value", f"presented id for requested {bid}")
        eq(int(cl.metadata.bid), got, "identity:metadata_bid", "metadata.bid")
        d = hashlib.sha256(cl.aes_rand).digest()
        eq((cl.aes_key, cl.hmac_key), (d[:16], d[16:]), "identity:key_split", "aes/hmac keys = SHA-256 halves of aes_rand")
        eq(bytes(cl.metadata.aes_rand), cl.aes_rand, "identity:metadata_aes_rand", "metadata.aes_rand")
        # same id -> same keys (other arguments differ, RNG state differs)
        random.seed(case["rng"] ^ 0x5A5A)
        cl2 = HttpBeaconClient()
        cfg2 = config()  # one configuration object, used for the first run and the re-run of cl2
        # ... and any of the other optional arguments are given or left out
        extras = {"pid": 4242, "arch": "x64", "internal_ip": "10.1.2.3", "high_integrity": True, "ansi_cp": 1252, "oem_cp": 437}
        extra2 = {k: v for n, (k, v) in enumerate(sorted(extras.items())) if (case["rng"] >> n) & 1}
        lib(cl2.run, cfg2, dry_run=True, beacon_id=got, user="u", computer="c", process="p", what="second run", **extra2)
        eq(cl2.aes_rand, cl.aes_rand, "identity:keys_not_deterministic", f"aes_rand for id {got} across two runs (second run with {sorted(extra2)})")
        # running the SAME client object again with another id must behave like a fresh client of that id
        other = (got + 2 * (1 + case["rng"] % 1000)) % 2**31
        fresh = HttpBeaconClient()
        lib(fresh.run, config(), dry_run=True, beacon_id=other, user="u", computer="c", process="p", what="fresh client")
        lib(cl2.run, cfg2, dry_run=True, beacon_id=other, user="u", computer="c", process="p", what="re-run of a used client with another id")
        d2 = hashlib.sha256(fresh.aes_rand).digest()
        for name, obj in (("fresh", fresh), ("re-run", cl2)):
            bk = obj.c2http.beacon_keys
            state_ = (obj.beacon_id, obj.aes_rand, obj.aes_key, obj.hmac_key, obj.c2http.aes_key, obj.c2http.hmac_key, bk.aes_key, bk.hmac_key, bytes(obj.metadata.aes_rand), int(obj.metadata.bid))
            want_ = (other, fresh.aes_rand, d2[:16], d2[16:], d2[:16], d2[16:], d2[:16], d2[16:], fresh.aes_rand, other)
            if state_ != want_:
                raise Violation("identity:rerun_stale_keys", f"{name} client for id {other}: identity/keys {state_!r} differ from the keys of that id {want_!r}")
        # metadata must fit the server's RSA-1024 key and survive transport
        blob = lib(c2.encrypt_metadata, cl.metadata, priv.public_key(), allow=(ValueError,), what="encrypt_metadata(client.metadata)")
        if isinstance(blob, Raised):
            raise Violation("identity:metadata_too_long", f"metadata of client(user={case['user']!r}, computer={case['computer']!r}, process={case['process']!r}) does not fit RSA-1024: info is {len(bytes(cl.metadata.info))} bytes: {blob.exc!r}")
        back = lib(c2.decrypt_metadata, blob, priv)
        eq(int(back.bid), got, "identity:metadata_roundtrip", "bid after RSA transport")
        eq(bytes(back.info), bytes(cl.metadata.info), "identity:metadata_info", "info after RSA transport")
        info_full = f"{case['computer']}\t{case['user']}\t{case['process']}".encode()
        check(info_full.startswith(bytes(cl.metadata.info)) or bytes(cl.metadata.info) == info_full[: len(bytes(cl.metadata.info))], "identity:info_prefix", f"info {bytes(cl.metadata.info)!r} is not a prefix of {info_full!r}")
        # sleep band
        s = cl.sleeptime
        j = cl.jitter
        if case["use_config_sleep"]:
            eq((s, j), (5000, 10), "identity:config_sleep", "sleeptime/jitter from the configuration")
        else:
            eq((s, j), (case["sleeptime"], case["jitter"]), "identity:override_sleep", "sleeptime/jitter overrides")
        lo = s * (1 - j / 100.0)
        for _ in range(200):
            t = lib(cl.get_sleep_time)
            check(lo - 1e-6 * (s + 1) <= t <= s + 1e-9, "identity:sleep_band", f"sleep {t} outside [{lo}, {s}] (jitter {j})")
        # a COMMAND_SLEEP handler reconfigures the running client by assigning client.sleeptime / client.jitter (this is what
        # scripts/example_client.py and the tutorial do): the intervals drawn afterwards lie in the band configured THEN
        for s2, j2 in case.get("resleep", []):
            cl.sleeptime = s2
            cl.jitter = j2
            lo2 = s2 * (1 - j2 / 100.0)
            for _ in range(50):
                t = lib(cl.get_sleep_time)
                check(lo2 - 1e-6 * (s2 + 1) <= t <= s2 + 1e-9, "identity:sleep_band_after_reconfiguration", f"sleep {t} outside [{lo2}, {s2}] after client.sleeptime={s2}, client.jitter={j2} (started with {s}/{j})")
    nonascii = any(ord(ch) > 127 for ch in case["user"] + case["computer"] + case["process"])
    stats.note(case, nonascii or not (0 <= bid < 2**31) or bid % 2 == 1, classes=["accepted", "non_ascii_names" if nonascii else "ascii_names", "long_info" if len(info_full) > 51 else "short_info"])


# ------------------------------------------------------------------------------------------ dispatch (stateful)
def _commands():
    from dissect.cobaltstrike.c_c2 import BeaconCommand

    return [c for c in BeaconCommand if c.value != 6]


CMD_POOL = [1, 2, 3, 4, 5, 8, 27, 32, 53, 95, 102]  # spawn, shell, die, sleep, cd, checkin, getuid, ps, file_list, inline_execute, ...


def new_dispatch(init):
    return {"init": init, "regs": [], "methods": [], "tasks": []}


def run_dispatch(state):
    """Builds a client from the recorded registrations, feeds the tasks through the real loop and checks the log."""
    from dissect.cobaltstrike import c_c2
    from dissect.cobaltstrike.c_c2 import BeaconCommand
    from dissect.cobaltstrike.client import HttpBeaconClient

    log = []
    sent = []
    silent = state["init"]["silent"]
    attrs = {}
    for m in state["methods"]:
        if m == "catch_all":
            attrs["on_catch_all"] = (lambda name: lambda self, task: log.append((name, self._cur)))("method:on_catch_all")
        elif m is None:
            attrs["on_empty_task"] = (lambda name: lambda self, task: log.append((name, self._cur)))("method:on_empty_task")
        else:
            cname = BeaconCommand(m).name.replace("COMMAND_", "").lower()
            respond = m == 4
            if respond:
                # the sleep handler reconfigures the running client the way scripts/example_client.py does
                def on_sleep(self, task, name=f"method:on_{cname}"):
                    log.append((name, self._cur))
                    self.sleeptime, self.jitter = _resleep(self._cur)
                    return (0, b"resp")

                attrs[f"on_{cname}"] = on_sleep
            else:
                attrs[f"on_{cname}"] = (lambda name: lambda self, task: (log.append((name, self._cur)), None)[1])(f"method:on_{cname}")

    tasks = list(state["tasks"])

    def get_task(self):
        self._cur = getattr(self, "_cur", -1) + 1
        if self._cur >= len(tasks):
            raise KeyboardInterrupt
        cmd, data = tasks[self._cur]
        if cmd is None:
            return None
        import struct

        # parse from bytes, as the library does for a task received from the wire (command becomes the enum)
        return c_c2.TaskPacket(struct.pack(">IIII", 1700000000 + self._cur, 8 + len(data), cmd, len(data)) + data)

    def send_callback(self, callback_id, data):
        sent.append((self._cur, callback_id, data))

    attrs["get_task"] = get_task
    attrs["send_callback"] = send_callback
    Client = type("GenClient", (HttpBeaconClient,), attrs)
    cl = Client()
    def make_handler(name, behaviour):
        # a handler may fail or answer with something that cannot be sent: the other handlers of the task still run
        def fn(task):
            log.append((name, cl._cur))
            if behaviour == "raise":
                raise RuntimeError("handler failure (generated)")
            if behaviour == "bad":
                return 7
            return None

        return fn

    for n, (kind, cmd, *beh) in enumerate(state["regs"]):
        name = f"deco:{n}:{kind}:{cmd}"
        fn = make_handler(name, beh[0] if beh else None)
        if kind == "handle":
            arg = cmd
            if state["init"]["enum_args"] and cmd is not None:
                arg = BeaconCommand(cmd)
            cl.handle(arg)(fn)
        else:
            cl.catch_all()(fn)

    def model_handlers(cmd):
        hs = [f"deco:{n}:handle:{c}" for n, (k, c, *_b) in enumerate(state["regs"]) if k == "handle" and c == cmd]
        if cmd is None:
            if None in state["methods"]:
                hs.append("method:on_empty_task")
        elif cmd in state["methods"]:
            hs.append("method:on_" + BeaconCommand(cmd).name.replace("COMMAND_", "").lower())
        if not hs:
            hs = [f"deco:{n}:catch_all:{c}" for n, (k, c, *_b) in enumerate(state["regs"]) if k == "catch_all"]
            if "catch_all" in state["methods"]:
                hs.append("method:on_catch_all")
        return hs

    # registry stability under repeated queries (before running the loop)
    for cmd in {c for c, _ in tasks}:
        first = len(lib(cl.get_handlers, cmd, what="get_handlers"))
        for _ in range(2):
            again = len(lib(cl.get_handlers, cmd, what="get_handlers"))
            if again != first:
                raise Violation("dispatch:handler_list_grows", f"get_handlers({cmd}) returned {first} then {again} handlers (regs={state['regs']}, methods={state['methods']})")
        eq(first, len(model_handlers(cmd)), "dispatch:handler_count", f"number of handlers for command {cmd} (regs={state['regs']}, methods={state['methods']})")

    with patched_client_module() as pm:
        r = lib(cl.run, config(), beacon_id=2, user="u", computer="c", process="p", silent=silent, sleeptime=1000, jitter=0, what="run() with the real beacon loop")
        slept = list(pm.fake.slept)
    # one sleep per loop iteration, each inside the jitter band configured at that moment
    eq(len(slept), len(tasks), "sleep:count", f"number of sleeps for {len(tasks)} loop iterations")
    cur = (1000, 0)
    for i, (cmd, _d) in enumerate(tasks):
        if cmd == 4 and 4 in state["methods"]:
            cur = _resleep(i)
        lo_, hi_ = cur[0] * (1 - cur[1] / 100.0) / 1000.0, cur[0] / 1000.0
        check(lo_ - 1e-9 <= slept[i] <= hi_ + 1e-9, "sleep:band_in_loop", f"sleep after task {i} was {slept[i]} s, configured band [{lo_}, {hi_}] s (sleeptime/jitter {cur}); tasks={tasks}")
    want = []
    for i, (cmd, _d) in enumerate(tasks):
        if cmd is None and not silent:
            continue  # empty task: the loop only sleeps
        for h in model_handlers(cmd):
            want.append((h, i))
    if log != want:
        from collections import Counter

        extra = Counter(log) - Counter(want)
        missing = Counter(want) - Counter(log)
        key = "dispatch:handler_invoked_more_than_once" if extra and not missing else "dispatch:wrong_invocations"
        raise Violation(key, f"invocation log differs: extra={dict(extra)} missing={dict(missing)} tasks={tasks} regs={state['regs']} methods={state['methods']} silent={silent}"[:1500])
    want_sent = [(i, 0, b"resp") for i, (cmd, _d) in enumerate(tasks) if cmd == 4 and 4 in state["methods"]]
    eq(sent, want_sent, "dispatch:callbacks", "callbacks sent for handler responses")
    return log


def _resleep(i):
    return 2000 + 37 * i, (i * 7) % 100


def dispatch_finish(state, case, stats):
    if not state["tasks"]:
        return
    run_dispatch(state)
    both = [c for c in state["methods"] if c not in ("catch_all",) and any(k == "handle" and cc == c for k, cc, *_b in state["regs"])]
    ntasks_both = sum(1 for c, _ in state["tasks"] if c in both)
    has_catch = "catch_all" in state["methods"] or any(k == "catch_all" for k, *_r in state["regs"])
    stats.note(case, ntasks_both >= 2 or (has_catch and len(state["tasks"]) >= 3), classes=["tasks%d" % min(len(state["tasks"]), 5), "decorator+method" if both else "single_kind", "catch_all" if has_catch else "no_catch_all", "silent" if state["init"]["silent"] else "verbose", "failing_handler" if any(len(r) > 2 and r[2] for r in state["regs"]) else "no_failing_handler"])


def apply_dispatch_op(state, op):
    kind = op[0]
    if kind == "handle":
        state["regs"].append(("handle", op[1], op[2] if len(op) > 2 else None))
    elif kind == "catch_all":
        state["regs"].append(("catch_all", None, op[1] if len(op) > 1 else None))
    elif kind == "method":
        if op[1] not in state["methods"]:
            state["methods"].append(op[1])
    elif kind == "task":
        state["tasks"].append((op[1], op[2]))


cmd_st = st.one_of(st.sampled_from([1, 4]), st.sampled_from([1, 4, 2]), st.sampled_from(CMD_POOL), st.none())


def dispatch_machine(stats, rec):
    class DispatchMachine(RuleBasedStateMachine):
        def __init__(self):
            super().__init__()
            self.ops = []
            self.state = None

        def case(self):
            return {"init": self.state["init"] if self.state else None, "ops": list(self.ops)}

        @initialize(init=st.fixed_dictionaries({"silent": st.booleans(), "enum_args": st.booleans()}))
        def start(self, init):
            self.state = new_dispatch(init)

        def do(self, op):
            self.ops.append(op)
            apply_dispatch_op(self.state, op)

        @precondition(lambda self: self.state is not None and not self.state["tasks"])
        @rule(cmd=cmd_st, beh=st.sampled_from([None, None, None, "raise", "bad"]))
        def handle(self, cmd, beh):
            self.do(("handle", cmd, beh))

        @precondition(lambda self: self.state is not None and not self.state["tasks"])
        @rule(beh=st.sampled_from([None, None, "raise", "bad"]))
        def catch_all(self, beh):
            self.do(("catch_all", beh))

        @precondition(lambda self: self.state is not None and not self.state["tasks"])
        @rule(cmd=st.one_of(cmd_st, st.just("catch_all")))
        def method(self, cmd):
            self.do(("method", cmd))

        @precondition(lambda self: self.state is not None)
        @rule(cmd=cmd_st, data=st.binary(max_size=8))
        def task(self, cmd, data):
            if len(self.state["tasks"]) < 12:
                self.do(("task", cmd, data))

        def teardown(self):
            if self.state is not None and self.state["tasks"]:
                stats.evaluations += 1
                rec.step(lambda: dispatch_finish(self.state, self.case(), stats), self.case, stats)

    return DispatchMachine


def dispatch_execute(case, stats):
    state = new_dispatch(case["init"])
    for op in case["ops"]:
        apply_dispatch_op(state, tuple(op))
    dispatch_finish(state, case, stats)


SUBS = [
    Sub("identity", identity_execute, strategy=identity_strategy, examples={"quick": 1600, "thorough": 32000}),
    Sub("dispatch_stateful", dispatch_execute, machine=dispatch_machine, examples={"quick": 3200, "thorough": 48000}, steps=25),
]
