"""C20 - byte-level codecs and stager URI classification are exact."""

import itertools
import random
import string
import struct

from hypothesis import strategies as st

from ..oracle import Raised, check, eq, lib
from ..ref import tlv
from ..runner import Sub, shard_iter

PROPERTY = "C20"
LEVEL = "exploration"
RULE = (
    "Hypothesis-generated (data,key) pairs for xor, byte strings x offsets for NetBIOS, integers at widths 1/2/4/8 "
    "x byte order x signedness for pack/unpack, URI strings (exhaustive '/'+[A-Za-z0-9]{<=3} quick, {4} thorough, "
    "plus random printable URIs), stager lengths 0..40 under seeded RNG, and staged-beacon responses. "
    "Non-trivial: xor with a non-zero key on non-empty data; netbios on non-empty data; pack of a non-zero integer; "
    "URI of >= 4 chars; valid generator arguments; response with a request attached. Distinct by case content."
)
ASSUMPTIONS = [
    "checksum8 reference: 0 for strings shorter than 4 chars, else sum of code points without '/' modulo 256 "
    "(Cobalt Strike's definition, matches tests/test_utils.py vectors)",
    "URI strings contain no whitespace/control characters (cannot occur in a request line)",
    "NetBIOS offsets restricted to 0..240 so that every encoded byte fits in a byte",
]

ALNUM = string.ascii_letters + string.digits


def ref_xor(data: bytes, key: bytes) -> bytes:
    if not key:
        return bytes(data)
    return bytes(d ^ key[i % len(key)] for i, d in enumerate(data))


def ref_checksum8(text: str) -> int:
    if len(text) < 4:
        return 0
    return sum(ord(c) for c in text if c != "/") % 256


def ref_is_x86(uri):
    return ref_checksum8(uri) == 92


def ref_is_x64(uri):
    return ref_checksum8(uri) == 93 and len(uri) == 5 and uri[0] == "/" and all(c in ALNUM for c in uri[1:])


# ----------------------------------------------------------------------------------------------- xor
def xor_strategy():
    keys = st.one_of(
        st.binary(max_size=8),
        st.binary(min_size=1, max_size=80),
        st.integers(0, 8).map(lambda n: b"\x00" * n),
        st.integers(0, 255).map(lambda b: bytes([b])),
    )
    return st.fixed_dictionaries({"data": st.binary(max_size=64), "key": keys})


def xor_execute(case, stats):
    from dissect.cobaltstrike import utils

    data, key = case["data"], case["key"]
    out = lib(utils.xor, data, key)
    eq(type(out) in (bytes, bytearray), True, "xor:type", "xor returns bytes")
    eq(len(out), len(data), "xor:length", f"len(xor(data,key)) for len(data)={len(data)} key={key!r}")
    eq(bytes(out), ref_xor(data, key), "xor:value", f"xor({data!r},{key!r})")
    back = lib(utils.xor, bytes(out), key)
    eq(bytes(back), data, "xor:self_inverse", f"xor(xor(d,k),k) for d={data!r} k={key!r}")
    if not key or not any(key):
        eq(bytes(out), data, "xor:identity", f"empty/zero key must be identity, key={key!r}")
    stats.note(
        case,
        bool(data) and any(key),
        classes=[
            "key_longer_than_data" if len(key) > len(data) else "key_not_longer",
            "empty_key" if not key else ("zero_key" if not any(key) else "nonzero_key"),
        ],
    )


# ----------------------------------------------------------------------------------------------- netbios
def netbios_enumerate(tier, shard, nshards):
    # every byte value x every offset for which the encoding fits in a byte
    def gen():
        for off in range(0, 241):
            yield {"data": bytes(range(256)), "offset": off}
            yield {"data": b"", "offset": off}

    return shard_iter(gen(), shard, nshards)


def netbios_strategy():
    return st.fixed_dictionaries(
        {"data": st.binary(max_size=48), "offset": st.one_of(st.sampled_from([0x41, 0x61, 0, 240]), st.integers(0, 240))}
    )


def netbios_execute(case, stats):
    from dissect.cobaltstrike import utils

    data, off = case["data"], case["offset"]
    if off == 0x41:
        e = lib(utils.netbios_encode, data)
    elif len(data) % 2:
        e = lib(utils.netbios_encode, data, off)
    else:
        e = lib(utils.netbios_encode, data=data, offset=off)
    want = b"".join(bytes([(b >> 4) + off, (b & 15) + off]) for b in data)
    eq(e, want, "netbios:encode", f"netbios_encode({data!r},{off})")
    d = (lib(utils.netbios_decode, e, off) if len(data) % 3 else lib(utils.netbios_decode, data=e, offset=off)) if off != 0x41 else lib(utils.netbios_decode, e)
    eq(d, data, "netbios:roundtrip", f"netbios_decode(netbios_encode(d)) for offset {off}")
    if off == 0x41:
        # the lower-case variant used on the wire: encode().lower() decodes after .upper()
        eq(lib(utils.netbios_decode, e.lower().upper()), data, "netbios:case", "lower/upper wire variant")
        eq(lib(utils.netbios_decode, e.lower(), 0x61), data, "netbios:offset_a", "offset 0x61 decodes lower case")
    stats.note(case, bool(data), classes=[f"offset_{'A' if off == 0x41 else 'a' if off == 0x61 else 'other'}"])


# ----------------------------------------------------------------------------------------------- pack / unpack
WIDTHS = [1, 2, 4, 8]
FMT = {(1, False): "B", (1, True): "b", (2, False): "H", (2, True): "h", (4, False): "I", (4, True): "i", (8, False): "Q", (8, True): "q"}


def _ints_for(width, signed):
    bits = width * 8
    lo, hi = (-(1 << (bits - 1)), (1 << (bits - 1)) - 1) if signed else (0, (1 << bits) - 1)
    edge = [lo, lo + 1, -1, 0, 1, hi - 1, hi, hi // 2, 0x80, 0xFF, 0x100, 0x7FFF, 0x8000, 0xFFFF]
    edge = [e for e in edge if lo <= e <= hi]
    return st.one_of(st.sampled_from(edge), st.integers(lo, hi))


def pack_strategy():
    def mk(width, signed, order):
        return st.fixed_dictionaries(
            {
                "width": st.just(width),
                "signed": st.just(signed),
                "order": st.just(order),
                "n": _ints_for(width, signed),
                "raw": st.binary(min_size=width, max_size=width),
            }
        )

    fixed = st.tuples(st.sampled_from(WIDTHS), st.booleans(), st.sampled_from(["little", "big"])).flatmap(lambda t: mk(*t))
    auto = st.fixed_dictionaries(
        {
            "width": st.none(),
            "signed": st.just(False),
            "order": st.sampled_from(["little", "big"]),
            "n": st.one_of(st.integers(0, 1 << 70), st.sampled_from([0, 1, 255, 256, 65535, 65536, (1 << 64) - 1, 1 << 64])),
            "raw": st.binary(max_size=12),
        }
    )
    return st.one_of(fixed, fixed, fixed, auto)


def pack_execute(case, stats):
    from dissect.cobaltstrike import utils

    w, signed, order, n, raw = case["width"], case["signed"], case["order"], case["n"], case["raw"]
    if w is None:
        p = lib(utils.pack, n, byteorder=order)
        want_len = (n.bit_length() + 7) // 8
        eq(len(p), want_len, "pack:auto_len", f"pack({n}) minimal length")
        eq(lib(utils.unpack, p, byteorder=order), n, "pack:auto_roundtrip", f"unpack(pack({n}))")
        eq(int.from_bytes(p, order), n, "pack:auto_value", f"pack({n},{order})")
        if order == "big":
            eq(lib(utils.pack_be, n), p, "pack:pack_be", "pack_be partial")
            eq(lib(utils.unpack_be, p), n, "pack:unpack_be", "unpack_be partial")
        v = lib(utils.unpack, raw, byteorder=order)
        eq(v, int.from_bytes(raw, order), "unpack:auto", f"unpack({raw!r})")
        stats.note(case, n != 0, classes=["auto_width"])
        return
    fmt = ("<" if order == "little" else ">") + FMT[(w, signed)]
    p = lib(utils.pack, n, size=w, byteorder=order, signed=signed)
    eq(p, struct.pack(fmt, n), "pack:value", f"pack({n},size={w},{order},signed={signed})")
    eq(lib(utils.unpack, p, size=w, byteorder=order, signed=signed), n, "pack:roundtrip", f"unpack(pack({n})) w={w}")
    v = lib(utils.unpack, raw, size=w, byteorder=order, signed=signed)
    eq(v, struct.unpack(fmt, raw)[0], "unpack:value", f"unpack({raw!r},size={w},{order},signed={signed})")
    eq(lib(utils.pack, v, size=w, byteorder=order, signed=signed), raw, "unpack:roundtrip", f"pack(unpack({raw!r}))")
    # trailing bytes beyond the width are ignored by unpack
    eq(lib(utils.unpack, raw + b"\xaa\xbb", size=w, byteorder=order, signed=signed), v, "unpack:trailing", "extra bytes")
    if not signed:
        name = f"{8 * w}" + ("be" if order == "big" and w > 1 else "")
        if order == "little" or w > 1:
            pf, uf = getattr(utils, "p" + name), getattr(utils, "u" + name)
            eq(lib(pf, n), p, f"pack:partial", f"utils.p{name}({n})")
            eq(lib(uf, raw), v, f"unpack:partial", f"utils.u{name}({raw!r})")
    # out-of-range values must be rejected, not wrapped
    bits = 8 * w
    hi = (1 << (bits - 1)) if signed else (1 << bits)
    r = lib(utils.pack, hi, size=w, byteorder=order, signed=signed, allow=(OverflowError,))
    check(isinstance(r, Raised), "pack:overflow", f"pack({hi},size={w},signed={signed}) returned {r!r}")
    stats.note(case, n != 0, classes=[f"w{w}", "signed" if signed else "unsigned", order])


# ----------------------------------------------------------------------------------------------- URI classifiers
def _check_uri(utils, uri):
    x86 = lib(utils.is_stager_x86, uri)
    x64 = lib(utils.is_stager_x64, uri)
    eq(lib(utils.checksum8, uri), ref_checksum8(uri), "uri:checksum8", f"checksum8({uri!r})")
    check(x86 is True or x86 is False, "uri:type", f"is_stager_x86({uri!r}) -> {x86!r}")
    check(x64 is True or x64 is False, "uri:type", f"is_stager_x64({uri!r}) -> {x64!r}")
    eq(x86, ref_is_x86(uri), "uri:x86", f"is_stager_x86({uri!r})")
    eq(x64, ref_is_x64(uri), "uri:x64", f"is_stager_x64({uri!r})")
    return x86, x64


def uri_enumerate(tier, shard, nshards):
    maxlen = 4 if tier == "thorough" else 3

    def gen():
        # one case = one first character block, to keep per-case overhead low
        for length in range(0, maxlen + 1):
            if length == 0:
                yield {"prefix": "", "length": 0}
                continue
            for c in ALNUM:
                if length == 4:
                    for c2 in ALNUM:
                        yield {"prefix": c + c2, "length": length}
                else:
                    yield {"prefix": c, "length": length}

    return shard_iter(gen(), shard, nshards)


def uri_enum_execute(case, stats):
    from dissect.cobaltstrike import utils

    prefix, length = case["prefix"], case["length"]
    rest = length - len(prefix)
    n = hits = 0
    for tail in itertools.product(ALNUM, repeat=rest):
        uri = "/" + prefix + "".join(tail)
        x86, x64 = _check_uri(utils, uri)
        n += 1
        hits += x86 or x64
    stats.count("uris_enumerated", n)
    stats.count("stager_uris", hits)
    stats.note(case, length >= 3, classes=[f"len{length}"])


URI_ALPHABET = "".join(chr(c) for c in range(0x21, 0x7F))


def uri_strategy():
    seg = st.text(alphabet=URI_ALPHABET, max_size=8)
    plain = st.lists(seg, min_size=1, max_size=4).map(lambda segs: "/" + "/".join(segs))
    near = st.tuples(st.text(alphabet=ALNUM, min_size=4, max_size=4), st.sampled_from(["", "/", "a", "?x=1", ".", "\xe9"])).map(
        lambda t: "/" + t[0] + t[1]
    )
    noslash = st.text(alphabet=URI_ALPHABET + "\xe9\xff", max_size=12)

    # construct strings with a chosen checksum: pick a body, then fix the last char
    def fix(t):
        body, target = t
        s = sum(ord(c) for c in body if c != "/")
        for c in ALNUM + URI_ALPHABET:
            if c != "/" and (s + ord(c)) % 256 == target:
                return body + c
        return body

    forced = st.tuples(st.one_of(plain, st.text(alphabet=ALNUM, min_size=3, max_size=3).map(lambda s: "/" + s)), st.sampled_from([92, 93])).map(fix)

    # URIs holding percent-escapes: the checksum is over the characters as written, not over what they would decode to.
    # Either the written form or the percent-decoded form is given checksum 92 / 93.
    esc = st.tuples(st.text(alphabet=ALNUM, max_size=3), st.sampled_from(["%41", "%54", "%2f", "%2F", "%00", "%ff", "%7e", "%", "%4", "%zz", "%25", "+"]), st.text(alphabet=ALNUM, max_size=2)).map(lambda t: "/" + t[0] + t[1] + t[2])

    def fix_decoded(t):
        from urllib.parse import unquote

        body, target = t
        s = sum(ord(c) for c in unquote(body, encoding="latin-1") if c != "/")
        for c in ALNUM:
            if (s + ord(c)) % 256 == target:
                return body + c
        return body

    escaped = st.one_of(esc, st.tuples(esc, st.sampled_from([92, 93])).map(fix), st.tuples(esc, st.sampled_from([92, 93])).map(fix_decoded))
    # characters beyond latin-1 count with their code point like any other character (and are no alphanumerics): they are
    # neither dropped nor replaced before the length test, the sum or the shape test
    _WIDE = "\u20ac\u0141\u4e2d\U0001f600\u0100\u015c\u015d\u0416\uff21"
    wide_body = st.tuples(st.text(alphabet=ALNUM, max_size=4), st.text(alphabet=_WIDE, min_size=1, max_size=2), st.text(alphabet=ALNUM, max_size=3)).map(lambda t: "/" + t[0] + t[1] + t[2])

    def fix_without_wide(t):
        # the checksum that results when the wide characters are ignored is made 92 / 93
        body, target = t
        s = sum(ord(c) for c in body if c != "/" and ord(c) < 256)
        for c in ALNUM:
            if (s + ord(c)) % 256 == target:
                return body + c
        return body

    wide = st.one_of(wide_body, st.tuples(wide_body, st.sampled_from([92, 93])).map(fix), st.tuples(wide_body, st.sampled_from([92, 93])).map(fix_without_wide))
    return st.fixed_dictionaries({"uri": st.one_of(plain, near, noslash, forced, forced, escaped, wide)})


def uri_execute(case, stats):
    from dissect.cobaltstrike import utils

    uri = case["uri"]
    x86, x64 = _check_uri(utils, uri)
    stats.note(case, len(uri) >= 4, classes=["x86" if x86 else "x64" if x64 else "not_stager", "percent_escape" if "%" in uri else "no_escape", "beyond_latin1" if any(ord(c) > 255 for c in uri) else "latin1"])


# ----------------------------------------------------------------------------------------------- generator
def gen_strategy():
    return st.fixed_dictionaries({"x64": st.booleans(), "length": st.integers(-2, 40), "rng": st.integers(0, 2**32)})


def gen_execute(case, stats):
    from dissect.cobaltstrike import utils

    x64, length, rng = case["x64"], case["length"], case["rng"]
    valid = length >= 3 and (not x64 or length == 4)
    state = random.getstate()
    random.seed(rng)
    try:
        r = lib(utils.random_stager_uri, x64=x64, length=length, allow=(ValueError,))
    finally:
        random.setstate(state)
    if not valid:
        check(isinstance(r, Raised), "gen:invalid_args", f"random_stager_uri(x64={x64},length={length}) returned {r!r}")
    else:
        check(not isinstance(r, Raised), "gen:valid_args", f"random_stager_uri(x64={x64},length={length}) raised {r!r}")
        check(isinstance(r, str) and r.startswith("/") and len(r) == length + 1, "gen:shape", f"generated {r!r} for length {length}")
        check(all(c in ALNUM for c in r[1:]), "gen:alphabet", f"generated {r!r}")
        check(ref_is_x64(r) if x64 else ref_is_x86(r), "gen:classifier", f"generated {r!r} fails reference classifier x64={x64}")
        check(lib(utils.is_stager_x64 if x64 else utils.is_stager_x86, r), "gen:own_classifier", f"generated {r!r}")
    stats.note(case, valid, classes=["valid" if valid else "invalid", "x64" if x64 else "x86"])


# ----------------------------------------------------------------------------------------------- staged beacon gate
def staged_strategy():
    uri = st.one_of(
        st.sampled_from(["/aaa9", "/index.html", "/", "/submit.php", "/abcd", "/ab"]),
        st.text(alphabet=ALNUM, min_size=3, max_size=6).map(lambda s: "/" + s),
        st.integers(0, 2**32).map(lambda s: ("x86", s)),
        st.integers(0, 2**32).map(lambda s: ("x64", s)),
        # checksum 93 alone does not make an x64 stager URI (it also needs the "/" + four alphanumerics shape)
        st.integers(0, 2**32).map(lambda s: ("sum93_not_x64", s)),
        # a known request whose URI is empty, or holds bytes outside ASCII, is still a known request
        st.just(""),
        st.lists(st.integers(0x80, 0xFF), min_size=1, max_size=5).map(bytes),
        st.tuples(st.sampled_from([b"/", b"/ab", b""]), st.lists(st.integers(0x80, 0xFF), min_size=1, max_size=3).map(bytes), st.sampled_from([b"", b"c", b"/x"])).map(lambda t: t[0] + t[1] + t[2]),
    )
    return st.fixed_dictionaries(
        {
            "uri": st.one_of(st.none(), uri),
            "has_beacon": st.booleans(),
            # calls made on the same capture object before the one that is judged (a capture sees many responses)
            "pre": st.lists(st.sampled_from(["stager_empty", "stager_beacon", "plain_empty", "norequest_empty"]), max_size=3),
            "key": st.sampled_from([0x2E, 0x69, 0x00]),
            "port": st.integers(0, 65535),
            "prefix": st.binary(max_size=40),
            "suffix": st.binary(max_size=40),
        }
    )


def _mk_uri(u):
    if isinstance(u, (tuple, list)):
        kind, seed = u
        r = random.Random(seed)
        if kind == "sum93_not_x64":
            while True:
                body = "/" + "".join(r.choice(ALNUM + "/.-_") for _ in range(r.choice([2, 3, 5, 6, 7, 9])))
                for c in ALNUM:
                    s = body + c
                    if ref_checksum8(s) == 93 and not ref_is_x64(s) and not ref_is_x86(s):
                        return s
        while True:
            s = "/" + "".join(r.choice(ALNUM) for _ in range(4))
            if (ref_is_x64 if kind == "x64" else ref_is_x86)(s):
                return s
    return u


def staged_execute(case, stats):
    from dissect.cobaltstrike import pcap
    from dissect.cobaltstrike.c2 import HttpRequest, HttpResponse

    uri = _mk_uri(case["uri"]) if case["uri"] is not None else None
    settings = [(1, 1, b"\x00\x00"), (2, 1, struct.pack(">H", case["port"])), (3, 2, struct.pack(">I", 60000))]
    if case["has_beacon"]:
        block = tlv.encode(settings, pad_to=256)
        body = case["prefix"] + tlv.xor1(block, case["key"]) + case["suffix"]
    else:
        body = case["prefix"] + case["suffix"]
    # keep the body free of accidental headers / XorEncoded markers so that "has a beacon" is what we built
    hdrs = [tlv.xor1(tlv.HEADER, k) for k in (0x69, 0x2E, 0x00)]
    filler = case["prefix"] + b"|" + case["suffix"]
    if any(h in filler for h in hdrs) or b"\xff\xff\xff" in body[:1100]:
        from ..runner import Discard

        raise Discard("accidental header/marker in filler")
    uri_bytes = None
    if isinstance(uri, bytes):
        # non-ASCII bytes: only URIs that are no stager URI under either reading (bytes dropped / latin-1 characters)
        uri_bytes, readings = uri, (uri.decode("ascii", "ignore"), uri.decode("latin-1"))
        if any(ref_is_x86(u) or ref_is_x64(u) for u in readings):
            from ..runner import Discard

            raise Discard("non-ASCII URI that one reading classifies as a stager URI")
        uri = readings[1]
    req = None if uri is None else HttpRequest(method=b"GET", uri=uri.encode() if uri_bytes is None else uri_bytes, params={}, headers={}, body=b"")
    resp = HttpResponse(status=200, headers={}, reason=b"OK", body=body, request=req)
    cap = pcap.BeaconCapture(pcap="/nonexistent.pcap")
    for kind in case.get("pre") or []:
        pre_uri = {"stager_empty": "/aaa9", "stager_beacon": "/aaa9", "plain_empty": "/index.html", "norequest_empty": None}[kind]
        pre_body = tlv.xor1(tlv.encode(settings, pad_to=256), 0x2E) if kind == "stager_beacon" else b"<html>nothing here</html>"
        pre_req = None if pre_uri is None else HttpRequest(method=b"GET", uri=pre_uri.encode(), params={}, headers={}, body=b"")
        pre = lib(cap.find_staged_beacon, HttpResponse(status=200, headers={}, reason=b"OK", body=pre_body, request=pre_req), what="find_staged_beacon (earlier response)")
        check((pre is not None) == (kind == "stager_beacon"), "staged:earlier_response", f"earlier response {kind}: returned {pre!r}")
    got = lib(cap.find_staged_beacon, resp)
    stager = uri is not None and (ref_is_x86(uri) or ref_is_x64(uri))
    if uri is not None and not stager:
        check(got is None, "staged:non_stager_gate", f"request {uri!r} is not a stager URI but a beacon config was returned")
    elif case["has_beacon"]:
        check(got is not None, "staged:missed", f"stager/absent request {uri!r} with a beacon body returned None")
        eq(got.raw_settings_by_index.get(2), case["port"], "staged:settings", "port of the staged beacon")
        eq(got.xorkey, bytes([case["key"]]), "staged:xorkey", "xor key of staged beacon")
    else:
        check(got is None, "staged:phantom", f"no beacon in body but got {got!r}")
    stats.note(
        case,
        uri is not None,
        classes=["no_request" if uri is None else ("stager" if stager else "non_stager"), "beacon" if case["has_beacon"] else "no_beacon"] + (["empty_uri"] if uri == "" else ["non_ascii_uri"] if uri_bytes is not None else []) + (["after_earlier_responses"] if case.get("pre") else ["first_response"]),
    )


def large_enumerate(tier, shard, nshards):
    def gen():
        for size in (65535, 65536, 65537, 70001, 131072, 131075, 200000, 1048576, 2097152):
            for klen in (1, 3, 4, 5, 7, 16, 255, 65537):
                yield {"size": size, "klen": klen}

    return shard_iter(gen(), shard, nshards)


def large_execute(case, stats):
    """Large data (around and beyond 64 KiB) with keys of every kind of length; NetBIOS on the same data."""
    from dissect.cobaltstrike import utils

    rnd = random.Random(case["size"] * 1000 + case["klen"])
    data = rnd.randbytes(case["size"])
    key = rnd.randbytes(case["klen"])
    out = bytes(lib(utils.xor, data, key))
    want = bytes(a ^ b for a, b in zip(data, itertools.cycle(key)))
    if out != want:
        first = next(i for i in range(len(want)) if i >= len(out) or out[i] != want[i])
        check(False, "xor:value", f"xor of {case['size']} bytes with a {case['klen']}-byte key: first wrong byte at offset {first}")
    eq(bytes(lib(utils.xor, out, key)) == data, True, "xor:self_inverse", "large xor is self-inverse")
    if case["klen"] == 4:
        enc = lib(utils.netbios_encode, data)
        eq(len(enc), 2 * len(data), "netbios:length", "large netbios length")
        eq(bytes(lib(utils.netbios_decode, enc)) == data, True, "netbios:roundtrip", "large netbios round trip")
    stats.note(case, True, classes=["large"])


SUBS = [
    Sub("large_inputs", large_execute, enumerate=large_enumerate, exhaustive=True),
    Sub("xor", xor_execute, strategy=xor_strategy, examples={"quick": 8000, "thorough": 160000}),
    Sub("netbios_exhaustive", netbios_execute, enumerate=netbios_enumerate, exhaustive=True),
    Sub("netbios", netbios_execute, strategy=netbios_strategy, examples={"quick": 4000, "thorough": 80000}),
    Sub("pack", pack_execute, strategy=pack_strategy, examples={"quick": 8000, "thorough": 160000}),
    Sub("uri_exhaustive", uri_enum_execute, enumerate=uri_enumerate, exhaustive=True),
    Sub("uri", uri_execute, strategy=uri_strategy, examples={"quick": 8000, "thorough": 160000}),
    Sub("stager_generator", gen_execute, strategy=gen_strategy, examples={"quick": 3200, "thorough": 48000}),
    Sub("staged_beacon", staged_execute, strategy=staged_strategy, examples={"quick": 1600, "thorough": 32000}),
]
