"""Anchors the reference models to the repository's sample beacons WITHOUT using the library.

samples_decoded.json was recorded once (reviewed by hand) and is frozen: per sample the XOR key, XorEncoded nonce
offset and the decoded values of the structured settings.  The raw setting bytes are obtained here with the reference
XorEncoded decoder and the reference TLV decoder only.
"""

import functools
import json
import os

from .. import jsonx, samples
from . import tlv, xorenc


@functools.lru_cache(maxsize=None)
def fixture():
    with open(os.path.join(os.path.dirname(__file__), "samples_decoded.json")) as f:
        return jsonx.dec(json.load(f))


@functools.lru_cache(maxsize=None)
def sample_view(name: str) -> bytes:
    """The bytes in which the configuration block is searched (decoded view for XorEncoded samples)."""
    meta = fixture()[name]
    data = samples.sample(name)
    if meta["xorencoded"]:
        no = meta["nonce_offset"]
        return xorenc.decode_body(data[no + 8 :], data[no : no + 4])
    return data


@functools.lru_cache(maxsize=None)
def sample_block(name: str) -> bytes:
    meta = fixture()[name]
    if meta["guardrails"]:
        raise KeyError("guardrails sample has no plain block")
    view = sample_view(name)
    key = meta["xorkey"][0]
    pos = view.find(tlv.xor1(tlv.HEADER, key))
    assert pos >= 0, name
    return tlv.xor1(view[pos : pos + 4096], key)


def sample_raw_settings(name: str):
    return {idx: value for idx, _t, _l, value in tlv.decode(sample_block(name))}


def plain_samples():
    return [n for n, m in fixture().items() if not m["guardrails"]]
