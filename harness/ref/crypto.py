"""Reference crypto for beacon packets: AES-128-CBC built from the single-block ECB primitive, HMAC-SHA256 from the
standard library, SHA-256 key split.  Only the AES block function comes from pycryptodome."""

import hashlib
import hmac

from Crypto.Cipher import AES


def _x(a, b):
    return bytes(x ^ y for x, y in zip(a, b))


def pad_a(data: bytes) -> bytes:
    n = 16 - len(data) % 16
    return data + b"A" * n


def cbc_encrypt(plain_padded: bytes, key: bytes, iv: bytes) -> bytes:
    ecb = AES.new(key, AES.MODE_ECB)
    out = bytearray()
    prev = iv
    for i in range(0, len(plain_padded), 16):
        blk = ecb.encrypt(_x(plain_padded[i : i + 16], prev))
        out += blk
        prev = blk
    return bytes(out)


def cbc_decrypt(ct: bytes, key: bytes, iv: bytes) -> bytes:
    ecb = AES.new(key, AES.MODE_ECB)
    out = bytearray()
    prev = iv
    for i in range(0, len(ct), 16):
        blk = ct[i : i + 16]
        out += _x(ecb.decrypt(blk), prev)
        prev = blk
    return bytes(out)


def sign(ct: bytes, hmac_key: bytes) -> bytes:
    return hmac.new(hmac_key, ct, hashlib.sha256).digest()[:16]


def derive(aes_rand: bytes):
    d = hashlib.sha256(aes_rand).digest()
    return d[:16], d[16:]
