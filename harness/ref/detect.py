"""Reference analysis of XorEncoded detection (no library imports): which nonce offsets are candidates and which of
them validate, i.e. the reference-decoded view holds an (e_lfanew, Machine) structure within its first 1024 bytes."""

from . import pebuild, xorenc


def candidates(raw: bytes):
    """(must, may): candidate offsets every conforming detector considers / may consider (markers ending within the
    last 3 bytes of the 1024-byte search range)."""
    size_c = xorenc.size_candidates(raw)
    must_m, may_m = [], []
    p = raw.find(b"\xff\xff\xff")
    while p != -1 and p <= 1024 + 3:
        if p + 3 <= 1024:
            must_m.append(p + 3)
        else:
            may_m.append(p + 3)
        p = raw.find(b"\xff\xff\xff", p + 1)
    return list(dict.fromkeys(size_c + must_m)), list(dict.fromkeys(may_m))


def support(raw: bytes):
    """offset -> number of detection methods (size relation, end-of-stub marker) that propose it (markers fully
    inside the 1024-byte search range only)."""
    out = {}
    for c in xorenc.size_candidates(raw):
        out[c] = out.get(c, 0) + 1
    p = raw.find(b"\xff\xff\xff")
    seen = set()
    while p != -1 and p + 3 <= 1024:
        if p + 3 not in seen:
            seen.add(p + 3)
            out[p + 3] = out.get(p + 3, 0) + 1
        p = raw.find(b"\xff\xff\xff", p + 1)
    return out


def validates(raw: bytes, c: int) -> bool:
    if c + 8 > len(raw):
        return False
    view = xorenc.decode_body(raw[c + 8 : c + 8 + 2200], raw[c : c + 4])
    return pebuild.scan_mz(view) is not None


def validating(raw: bytes):
    must, may = candidates(raw)
    return [c for c in must if validates(raw, c)], [c for c in may if validates(raw, c)]


def marker_count(raw: bytes, limit: int = 1027) -> int:
    n = 0
    p = raw.find(b"\xff\xff\xff", 0, limit)
    while p != -1:
        n += 1
        p = raw.find(b"\xff\xff\xff", p + 1, limit)
    return n
