"""Independent reference model of Beacon Guardrails protection (no library imports).

    masked_beacon (6144) = plain_config XOR env_key(repeating from offset 0) XOR 0x2e
    guard_plain  (2048)  = TLV(guard options ..., (9, INT, checksum)) 00 00 + padding
    masked_guard (2048)  = guard_plain XOR reverse(masked_beacon)[:2048] XOR 0x8a
    checksum             = (sum_i plain[i] * (i mod 3 + 1)  mod 99999999) + 1
"""

import struct

CONFIG_SIZE = 6144
GUARD_SIZE = 2048
GUARD_USER, GUARD_COMPUTER, GUARD_DOMAIN, GUARD_LOCAL_IP, GUARD_CHECKSUM = 5, 6, 7, 8, 9


def keystream(key: bytes, n: int) -> bytes:
    return (key * (n // len(key) + 1))[:n]


def _x(a: bytes, b: bytes) -> bytes:
    return (int.from_bytes(a, "big") ^ int.from_bytes(b, "big")).to_bytes(len(a), "big")


def checksum(plain: bytes) -> int:
    n = 0
    for i, b in enumerate(plain):
        n = (n + b * (i % 3 + 1)) % 99999999
    return n + 1


def guard_tlv(options, csum: int) -> bytes:
    out = b""
    for opt, value in options:
        if opt == GUARD_LOCAL_IP:
            out += struct.pack(">HHHI", opt, 2, 4, value)
        else:
            out += struct.pack(">HHHH", opt, 1, 2, value)
    out += struct.pack(">HHHI", GUARD_CHECKSUM, 2, 4, csum)
    return out + b"\x00\x00"


def protect(plain: bytes, env_key: bytes, options, guard_pad: bytes = b"", beacon_key=0x2E, guard_key=0x8A, csum=None):
    """-> (masked_beacon, masked_guard, checksum)"""
    assert len(plain) == CONFIG_SIZE
    c = checksum(plain) if csum is None else csum
    masked_beacon = _x(_x(plain, keystream(env_key, CONFIG_SIZE)), bytes([beacon_key]) * CONFIG_SIZE)
    g = guard_tlv(options, c)
    g = g + (guard_pad * (GUARD_SIZE // max(1, len(guard_pad)) + 1))[: GUARD_SIZE - len(g)] if guard_pad else g + b"\x00" * (GUARD_SIZE - len(g))
    masked_guard = _x(_x(g, masked_beacon[::-1][:GUARD_SIZE]), bytes([guard_key]) * GUARD_SIZE)
    return masked_beacon, masked_guard, c


def unprotect(masked_beacon: bytes, masked_guard: bytes, env_key: bytes, beacon_key=0x2E, guard_key=0x8A):
    plain = _x(_x(masked_beacon, bytes([beacon_key]) * CONFIG_SIZE), keystream(env_key, CONFIG_SIZE))
    guard = _x(_x(masked_guard, masked_beacon[::-1][:GUARD_SIZE]), bytes([guard_key]) * GUARD_SIZE)
    return plain, guard


def zero_gram_is_top(plain: bytes, keylen: int) -> bool:
    """True iff the all-zero aligned keylen-gram is strictly the most frequent aligned gram of the plaintext - the
    precondition under which environmental keying can be broken through NUL padding at all."""
    import collections

    c = collections.Counter()
    padded = plain + b"\x00" * (-len(plain) % keylen)
    for i in range(0, len(padded), keylen):
        c[padded[i : i + keylen]] += 1
    top = c.most_common(2)
    zero = b"\x00" * keylen
    if top[0][0] != zero:
        return False
    return len(top) == 1 or top[1][1] < top[0][1]


def top_grams(plain: bytes, keylen: int, n: int = 3, key: bytes = b"\x00"):
    """The n most frequent aligned keylen-grams with their counts, counted the way a key search has to: on the MASKED
    bytes (plain XOR key stream), the last partial gram zero-filled, and reported with the key removed again (so the
    all-zero gram stands for 'this block is padding')."""
    import collections

    masked = _x(plain, keystream(key, len(plain)))
    padded = masked + b"\x00" * (-len(masked) % keylen)
    ks = keystream(key, keylen) if keylen % len(key) == 0 else None
    c = collections.Counter()
    for i in range(0, len(padded), keylen):
        g = padded[i : i + keylen]
        c[_x(g, ks) if ks is not None else g] += 1
    return c.most_common(n)


def zero_gram_findable(plain: bytes, keylen: int, key: bytes = b"\x00") -> bool:
    """The padding gram is the most frequent one, or shares first place with exactly one other gram (the two most
    common grams are both tried as keys)."""
    top = top_grams(plain, keylen, 3, key)
    zero = b"\x00" * keylen
    best = top[0][1]
    tied = [g for g, cnt in top if cnt == best]
    return zero in tied and len(tied) <= 2
