"""Independent HTTP/1.x wire serialiser (own percent-encoder) - imports nothing from the library or urllib."""

UNRESERVED = set(b"ABCDEFGHIJKLMNOPQRSTUVWXYZabcdefghijklmnopqrstuvwxyz0123456789-._~")


def pct_encode(data: bytes, space_plus=False, lower_hex=False, keep=b"") -> bytes:
    out = bytearray()
    for b in data:
        if b in UNRESERVED or b in keep:
            out.append(b)
        elif b == 0x20 and space_plus:
            out += b"+"
        else:
            out += (b"%%%02x" if lower_hex else b"%%%02X") % b
    return bytes(out)


def query(params, space_plus=False, lower_hex=False) -> bytes:
    return b"&".join(pct_encode(k, space_plus, lower_hex) + b"=" + pct_encode(v, space_plus, lower_hex) for k, v in params)


def request(method: bytes, path: bytes, params, headers, body: bytes, version=b"HTTP/1.1", space_plus=False, lower_hex=False) -> bytes:
    target = path
    if params:
        target += b"?" + query(params, space_plus, lower_hex)
    lines = [method + b" " + target + b" " + version]
    lines += [k + b": " + v for k, v in headers]
    return b"\r\n".join(lines) + b"\r\n\r\n" + body


def response(status: int, reason: bytes, headers, body: bytes, version=b"HTTP/1.1") -> bytes:
    lines = [version + b" " + str(status).encode() + b" " + reason]
    lines += [k + b": " + v for k, v in headers]
    return b"\r\n".join(lines) + b"\r\n\r\n" + body
