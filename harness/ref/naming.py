"""Frozen table: setting index -> names it may be reported under (aliases), and which indices have a pretty-printer."""

NAMES = {
    1: "PROTOCOL", 2: "PORT", 3: "SLEEPTIME", 4: "MAXGET", 5: "JITTER", 6: "MAXDNS", 7: "PUBKEY", 8: "DOMAINS", 9: "USERAGENT",
    10: "SUBMITURI", 11: "C2_RECOVER", 12: "C2_REQUEST", 13: "C2_POSTREQ", 14: "SPAWNTO", 15: "PIPENAME",
    16: ("KILLDATE_YEAR", "BOF_ALLOCATOR"), 17: ("KILLDATE_MONTH", "SYSCALL_METHOD"), 18: "KILLDATE_DAY", 19: "DNS_IDLE",
    20: "DNS_SLEEP", 21: "SSH_HOST", 22: "SSH_PORT", 23: "SSH_USERNAME", 24: "SSH_PASSWORD", 25: "SSH_KEY", 26: "C2_VERB_GET",
    27: "C2_VERB_POST", 28: "C2_CHUNK_POST", 29: "SPAWNTO_X86", 30: "SPAWNTO_X64", 31: "CRYPTO_SCHEME", 32: "PROXY_CONFIG",
    33: "PROXY_USER", 34: "PROXY_PASSWORD", 35: "PROXY_BEHAVIOR", 37: "WATERMARK", 38: "CLEANUP", 39: "CFG_CAUTION",
    40: "KILLDATE", 41: "GARGLE_NOOK", 42: "GARGLE_SECTIONS", 43: "PROCINJ_PERMS_I", 44: "PROCINJ_PERMS", 45: "PROCINJ_MINALLOC",
    46: "PROCINJ_TRANSFORM_X86", 47: "PROCINJ_TRANSFORM_X64", 48: ("PROCINJ_ALLOWED", "PROCINJ_BOF_REUSE_MEM"), 49: "BINDHOST",
    50: "HTTP_NO_COOKIES", 51: "PROCINJ_EXECUTE", 52: "PROCINJ_ALLOCATOR", 53: "PROCINJ_STUB", 54: "HOST_HEADER", 55: "EXIT_FUNK",
    56: "SSH_BANNER", 57: "SMB_FRAME_HEADER", 58: "TCP_FRAME_HEADER", 59: "HEADERS_REMOVE", 60: "DNS_BEACON_BEACON",
    61: "DNS_BEACON_GET_A", 62: "DNS_BEACON_GET_AAAA", 63: "DNS_BEACON_GET_TXT", 64: "DNS_BEACON_PUT_METADATA",
    65: "DNS_BEACON_PUT_OUTPUT", 66: "DNSRESOLVER", 67: "DOMAIN_STRATEGY", 68: "DOMAIN_STRATEGY_SECONDS",
    69: "DOMAIN_STRATEGY_FAIL_X", 70: "DOMAIN_STRATEGY_FAIL_SECONDS", 71: "MAX_RETRY_STRATEGY_ATTEMPTS",
    72: "MAX_RETRY_STRATEGY_INCREASE", 73: "MAX_RETRY_STRATEGY_DURATION", 74: "MASKED_WATERMARK", 76: "DATA_STORE_SIZE",
    77: "HTTP_DATA_REQUIRED", 78: "BEACON_GATE",
}  # fmt: skip

# indices whose human readable ("pretty") value differs from the raw value
PRETTY = {53, 14, 11, 12, 13, 51, 46, 47, 42, 58, 57, 8, 54, 26, 27, 15, 29, 30, 9, 10, 7, 60, 61, 62, 63, 64, 65, 66, 19, 36, 74, 16, 78}
STRING_PRETTY = {8, 54, 26, 27, 15, 29, 30, 9, 10, 60, 61, 62, 63, 64, 65, 66}
BYTES_PRETTY = {7, 53, 14, 74}


def allowed_names(index: int, typ: int):
    """Set of acceptable names, or None when the index is unknown to this table."""
    if index == 36:
        return {"SETTING_INJECT_OPTIONS"} if typ == 1 else {"SETTING_WATERMARKHASH"}
    n = NAMES.get(index)
    if n is None:
        return None
    if isinstance(n, tuple):
        return {"SETTING_" + x for x in n}
    return {"SETTING_" + n}
