"""Independent minimal PE32 / PE32+ image builder for Cobalt Strike style stages (no library imports).

Layout:  DOS header (magic_mz + reflective-loader stub marker, e_lfanew at 0x3c) | gap | magic_pe (4) |
IMAGE_FILE_HEADER (20) | optional header (224 / 240) | section table (40 each) | pad to SizeOfHeaders | raw sections
"""

import struct

MACHINE = {"x86": 0x014C, "x64": 0x8664}
STUB = {"x86": bytes.fromhex("e8000000005b"), "x64": bytes.fromhex("554889e54881")}


def build_pe(
    arch="x86",
    compile_stamp=0x5F000000,
    export_stamp=0x5FA0B201,
    e_lfanew=0x80,
    magic_mz=None,
    magic_pe=b"PE",
    sections=((".text", b"\xcc" * 64), (".data", b"\x00" * 64)),
    export_section=0,
    export_offset=8,
    machine=None,
    dos_fill=0x00,
    file_align=1,
    bss=(),
    table_order=None,
):
    """Returns (image bytes, info dict). ``sections`` = sequence of (name, raw bytes). export_stamp None => no export dir."""
    if magic_mz is None:
        magic_mz = b"MZ" if arch == "x86" else b"MZAR"
    dos = bytearray([dos_fill]) * 0x40
    head = magic_mz + STUB[arch]
    dos[: len(head)] = head
    dos[0x3C:0x40] = struct.pack("<i", e_lfanew)
    assert e_lfanew >= 0x40
    gap = bytes([dos_fill]) * (e_lfanew - 0x40)
    nsec = len(sections)
    opt_size = 224 if arch == "x86" else 240
    hdr_end = e_lfanew + 4 + 20 + opt_size + 40 * nsec
    size_of_headers = hdr_end if file_align <= 1 else (hdr_end + file_align - 1) // file_align * file_align

    # section placement: raw data back to back after the headers; virtual addresses 0x1000 apart (or more)
    raw_ptr = size_of_headers
    va = 0x1000
    sec_hdrs = []
    sec_info = []
    sections = list(sections)
    for i, (name, raw) in enumerate(sections):
        if i in bss:
            # uninitialised (.bss-like) section: virtual size only, no raw data in the file
            sections[i] = (name, b"")
            sec_hdrs.append(struct.pack("<8sIIIIIIHHI", name.encode()[:8], 0x200, va, 0, 0, 0, 0, 0, 0, 0xC0000080))
            sec_info.append(dict(name=name, va=va, vsize=0x200, raw_ptr=0, raw_size=0))
            va += 0x1000
            continue
        vsize = max(len(raw), 1)
        sec_hdrs.append(
            struct.pack("<8sIIIIIIHHI", name.encode()[:8], vsize, va, len(raw), raw_ptr, 0, 0, 0, 0, 0x60000020)
        )
        sec_info.append(dict(name=name, va=va, vsize=vsize, raw_ptr=raw_ptr, raw_size=len(raw)))
        raw_ptr += len(raw)
        va += (vsize + 0xFFF) // 0x1000 * 0x1000
    if table_order is not None:
        # the section table may list the sections in another order than their raw data lies in the file
        sec_hdrs = [sec_hdrs[i] for i in table_order]

    export_rva = export_dir_size = 0
    sections = [(n, bytearray(r)) for n, r in sections]
    if export_stamp is not None:
        si = sec_info[export_section]
        assert export_offset + 40 <= si["raw_size"], "export directory must fit in its section"
        export_rva = si["va"] + export_offset
        export_dir_size = 40
        expdir = struct.pack("<IIHHIIIIIII", 0, export_stamp, 0, 0, 0, 1, 1, 1, 0, 0, 0)
        sections[export_section][1][export_offset : export_offset + 40] = expdir

    datadirs = struct.pack("<II", export_rva, export_dir_size) + b"\x00" * (8 * 15)
    if arch == "x86":
        opt = struct.pack(
            "<HBBIIIIIIIIIHHHHHHIIIIHHIIIIII",
            0x10B, 14, 0, 0x1000, 0x1000, 0, 0x1000, 0x1000, 0x2000, 0x10000000, 0x1000, 0x200,
            6, 0, 0, 0, 6, 0, 0, va, size_of_headers, 0, 2, 0x140, 0x100000, 0x1000, 0x100000, 0x1000, 0, 16,
        )
    else:
        opt = struct.pack(
            "<HBBIIIIIQIIHHHHHHIIIIHHQQQQII",
            0x20B, 14, 0, 0x1000, 0x1000, 0, 0x1000, 0x1000, 0x180000000, 0x1000, 0x200,
            6, 0, 0, 0, 6, 0, 0, va, size_of_headers, 0, 2, 0x160, 0x100000, 0x1000, 0x100000, 0x1000, 0, 16,
        )
    opt += datadirs
    assert len(opt) == opt_size, (len(opt), opt_size)
    mach = MACHINE[arch] if machine is None else machine
    filehdr = struct.pack("<HHIIIHH", mach, nsec, compile_stamp, 0, 0, opt_size, 0x2102 if arch == "x86" else 0x2022)
    pe_sig = (magic_pe + b"\x00" * 4)[:4]
    headers = bytes(dos) + gap + pe_sig + filehdr + opt + b"".join(sec_hdrs)
    headers += b"\x00" * (size_of_headers - len(headers))
    image = headers + b"".join(bytes(r) for _, r in sections)
    info = dict(
        arch=arch,
        compile_stamp=compile_stamp,
        export_stamp=export_stamp,
        e_lfanew=e_lfanew,
        magic_mz=magic_mz,
        magic_pe=magic_pe.rstrip(b"\x00"),
        size=len(image),
        size_of_headers=size_of_headers,
        sections=sec_info,
    )
    return image, info


def scan_mz(data: bytes, maxrange: int = 1024):
    """First offset < maxrange whose bytes look like (e_lfanew in (0,maxrange), Machine x86/x64): the constraint the
    library documents for locating the DOS header.  Used only to detect ambiguous generated inputs."""
    n = len(data)
    for off in range(maxrange):
        if off + 64 > n:
            break
        e = struct.unpack_from("<i", data, off + 0x3C)[0]
        if 0 < e < maxrange:
            p = off + 4 + e
            if p + 20 <= n and struct.unpack_from("<H", data, p)[0] in (0x014C, 0x8664):
                return off
    return None


def parse_pe(data: bytes, mz_off: int):
    """Reference reader (struct offsets only) used to anchor the builder's field layout against real samples."""
    e = struct.unpack_from("<i", data, mz_off + 0x3C)[0]
    pe_off = mz_off + e
    machine, nsec, stamp, _, _, optsize, _ = struct.unpack_from("<HHIIIHH", data, pe_off + 4)
    arch = {0x014C: "x86", 0x8664: "x64"}.get(machine)
    opt = pe_off + 24
    dd = opt + (96 if arch == "x86" else 112)
    exp_rva, _exp_size = struct.unpack_from("<II", data, dd)
    size_of_headers = struct.unpack_from("<I", data, opt + 60)[0]
    sec = opt + optsize
    export = None
    total = size_of_headers
    for i in range(nsec):
        name, vsize, va, rawsize, rawptr = struct.unpack_from("<8sIIII", data, sec + 40 * i)
        total += rawsize
        if export is None and va <= exp_rva < va + vsize:
            export = struct.unpack_from("<I", data, mz_off + exp_rva - va + rawptr + 4)[0]
    return dict(arch=arch, compile_stamp=stamp, export_stamp=export, magic_pe=data[pe_off : pe_off + 4].rstrip(b"\x00"), size=total, e_lfanew=e)
