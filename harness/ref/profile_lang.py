"""Frozen reference description of the Malleable C2 profile language (no library imports).

Every statement form is listed per block.  Statement kinds:
    ("set", name)          set name "v";
    ("kw0", name)          name;
    ("kw1", name)          name "v";
    ("kw2", name)          name "a" "b";
    ("block", name, SPEC)  name { ... }                 (SPEC = key into BLOCKS)
    ("transform", name)    name { <data transform statements> }   (metadata / id / output)
Top-level blocks may carry a variant:  http-get "variant" { ... }
"""

GLOBAL_OPTIONS = [
    "sample_name", "data_jitter", "dns_idle", "dns_max_txt", "dns_sleep", "dns_stager_prepend", "dns_stager_subhost", "dns_ttl",
    "host_stage", "jitter", "maxdns", "pipename", "pipename_stager", "sleeptime", "smb_frame_header", "ssh_banner", "ssh_pipename",
    "tcp_frame_header", "tcp_port", "useragent", "spawnto", "spawnto_x86", "spawnto_x64", "amsi_disable", "create_remote_thread",
    "hijack_remote_thread", "tasks_max_size", "tasks_proxy_max_size", "tasks_dns_proxy_max_size",
]  # fmt: skip

TRANSFORM_STEPS = [("kw1", "append"), ("kw0", "base64"), ("kw0", "base64url"), ("kw0", "mask"), ("kw0", "netbios"), ("kw0", "netbiosu"), ("kw1", "prepend")]
TERMINATIONS = [("kw1", "header"), ("kw1", "parameter"), ("kw0", "print"), ("kw0", "uri-append")]

BEACON_GATE = ["None", "Comms", "Core", "Cleanup", "All", "InternetOpenA", "InternetConnectA", "VirtualAlloc", "VirtualAllocEx", "VirtualProtect",
               "VirtualProtectEx", "VirtualFree", "GetThreadContext", "SetThreadContext", "ResumeThread", "CreateThread", "CreateRemoteThread",
               "OpenProcess", "OpenThread", "CloseHandle", "CreateFileMappingA", "MapViewOfFile", "UnmapViewOfFile", "VirtualQuery",
               "DuplicateHandle", "ReadProcessMemory", "WriteProcessMemory", "ExitThread"]  # fmt: skip


def _sets(*names):
    return [("set", n) for n in names]


BLOCKS = {
    "http_options": [("kw2", "header"), ("kw2", "parameter"), ("transform", "output")],
    "http_client_options": [("kw2", "header"), ("set", "verb"), ("transform", "metadata"), ("transform", "id"), ("kw2", "parameter"), ("transform", "output")],
    "stage_transform": [("kw1", "prepend"), ("kw1", "append"), ("kw2", "strrep")],
    "execute": [("kw1", "CreateThread"), ("kw1", "CreateRemoteThread"), ("kw0", "CreateThread"), ("kw0", "CreateRemoteThread"), ("kw0", "NtQueueApcThread"),
                ("kw0", "NtQueueApcThread-s"), ("kw0", "RtlCreateUserThread"), ("kw0", "SetThreadContext")],
    "beacon_gate": [("kw0", n) for n in BEACON_GATE],
    # ---- top level
    "http-config": _sets("headers") + [("kw2", "header")] + _sets("trust_x_forwarded_for", "block_useragents", "allow_useragents"),
    "https-certificate": _sets("C", "CN", "L", "OU", "O", "ST", "validity", "keystore", "password"),
    "code-signer": _sets("keystore", "password", "alias", "digest_algorithm", "timestamp", "timestamp_url"),
    "http-stager": _sets("uri_x86", "uri_x64") + [("block", "client", "http_options"), ("block", "server", "http_options")],
    "http-get": _sets("uri", "verb") + [("block", "client", "http_client_options"), ("block", "server", "http_options")],
    "http-post": _sets("uri", "verb") + [("block", "client", "http_client_options"), ("block", "server", "http_options")],
    "stage": [("kw1", "string"), ("kw1", "stringw"), ("block", "transform-x86", "stage_transform"), ("block", "transform-x64", "stage_transform")]
    + _sets("allocator", "cleanup", "magic_pe", "magic_mz_x86", "magic_mz_x64", "obfuscate", "sleep_mask", "smartinject", "stomppe", "userwx", "compile_time",
            "entry_point", "module_x86", "module_x64", "image_size_x86", "image_size_x64", "name", "rich_header", "checksum", "syscall_method", "data_store_size")
    + [("block", "beacon_gate", "beacon_gate")],
    "process-inject": _sets("allocator", "min_alloc", "startrwx", "userwx")
    + [("block", "transform-x86", "stage_transform"), ("block", "transform-x64", "stage_transform"), ("block", "execute", "execute"), ("kw1", "disable")]
    + _sets("bof_allocator", "bof_reuse_memory"),
    "post-ex": _sets("spawnto_x86", "spawnto_x64", "obfuscate", "pipename", "smartinject", "amsi_disable", "keylogger", "thread_hint"),
    "dns-beacon": _sets("dns_idle", "dns_max_txt", "dns_sleep", "dns_ttl", "maxdns", "dns_stager_prepend", "dns_stager_subhost", "beacon", "get_A", "get_AAAA",
                        "get_TXT", "put_metadata", "put_output", "ns_response"),
    "http-beacon": _sets("library", "data_required", "data_required_length"),
}  # fmt: skip

TOP_BLOCKS = ["http-config", "https-certificate", "code-signer", "http-stager", "http-get", "http-post", "stage", "process-inject", "post-ex", "dns-beacon", "http-beacon"]
VARIANT_BLOCKS = {"https-certificate", "http-stager", "http-get", "http-post"}


# ----------------------------------------------------------------------------------------------- AST + rendering
# AST node forms (plain lists/tuples so they are JSON-able):
#   ["opt", name, lit]                      global option          set name lit;
#   ["set", name, lit] ["kw0", name] ["kw1", name, lit] ["kw2", name, lit, lit]
#   ["block", name, variant_lit|None, [children]]
#   ["transform", name, [ [steps...], ... ]]   each inner list = transform statements ending with one termination


def render(nodes, ws=None, indent=0):
    """Render an AST to profile text.  ``ws`` is an iterator of whitespace/comment strings used between tokens."""
    out = []

    def gap():
        return next(ws) if ws is not None else " "

    def emit(*toks):
        for t in toks:
            out.append(t)
            out.append(gap())

    def walk(n):
        k = n[0]
        if k in ("opt", "set"):
            emit("set", n[1], n[2], ";")
        elif k == "kw0":
            emit(n[1], ";")
        elif k == "kw1":
            emit(n[1], n[2], ";")
        elif k == "kw2":
            emit(n[1], n[2], n[3], ";")
        elif k == "block":
            emit(n[1])
            if n[2] is not None:
                emit(n[2])
            emit("{")
            for c in n[3]:
                walk(c)
            emit("}")
        elif k == "transform":
            emit(n[1], "{")
            for dt in n[2]:
                for s in dt:
                    walk(s)
            emit("}")
        else:
            raise ValueError(n)

    for n in nodes:
        walk(n)
    return "".join(out)


def tokens_of_ast(nodes):
    return tokenize(render(nodes))


# ----------------------------------------------------------------------------------------------- independent tokenizer
_BARE = set("ABCDEFGHIJKLMNOPQRSTUVWXYZabcdefghijklmnopqrstuvwxyz0123456789_-")


def tokenize(text: str):
    """Keywords, string literals and punctuation of a profile; whitespace and # comments are dropped."""
    toks = []
    i, n = 0, len(text)
    while i < n:
        c = text[i]
        if c in " \t\r\n\f\v":
            i += 1
        elif c == "#":
            while i < n and text[i] != "\n":
                i += 1
        elif c == '"':
            j = i + 1
            while j < n:
                if text[j] == "\\":
                    j += 2
                    continue
                if text[j] == '"':
                    break
                j += 1
            toks.append(text[i : j + 1])
            i = j + 1
        elif c in "{};":
            toks.append(c)
            i += 1
        elif c in _BARE:
            j = i
            while j < n and text[j] in _BARE:
                j += 1
            toks.append(text[i:j])
            i = j
        else:
            toks.append(c)
            i += 1
    return toks


# ----------------------------------------------------------------------------------------------- full-coverage profile
def every_statement_once(lit=lambda s: '"%s"' % s):
    """One AST that contains every statement form of the language exactly once (each in its own block)."""
    nodes = [["opt", o, lit("v_" + o)] for o in GLOBAL_OPTIONS]

    def stmt(spec, path):
        k = spec[0]
        if k == "set":
            return ["set", spec[1], lit(path + spec[1])]
        if k == "kw0":
            return ["kw0", spec[1]]
        if k == "kw1":
            return ["kw1", spec[1], lit(path + spec[1])]
        if k == "kw2":
            return ["kw2", spec[1], lit(path + spec[1] + "_a"), lit(path + spec[1] + "_b")]
        if k == "block":
            return ["block", spec[1], None, [stmt(s, path + spec[1] + ".") for s in BLOCKS[spec[2]]]]
        if k == "transform":
            dts = []
            for tk, tn in TERMINATIONS:
                dt = [[sk, sn] + ([lit(path + sn)] if sk == "kw1" else []) for sk, sn in TRANSFORM_STEPS]
                dt.append([tk, tn] + ([lit(path + tn)] if tk == "kw1" else []))
                dts.append(dt)
            return ["transform", spec[1], dts]
        raise ValueError(spec)

    for b in TOP_BLOCKS:
        nodes.append(["block", b, None, [stmt(s, b + ".") for s in BLOCKS[b]]])
        if b in VARIANT_BLOCKS:
            nodes.append(["block", b, lit("variant_" + b), [stmt(s, b + ".") for s in BLOCKS[b][:2]]])
    return nodes


def statement_forms():
    """All (block spec name, kind, keyword) forms - used to report which productions were exercised."""
    forms = {("top", "opt", o) for o in GLOBAL_OPTIONS}
    for b, specs in BLOCKS.items():
        for s in specs:
            forms.add((b, s[0], s[1]))
    for k, n in TRANSFORM_STEPS + TERMINATIONS:
        forms.add(("data_transform", k, n))
    return forms


def forms_of_ast(nodes):
    out = set()

    def walk(n, spec):
        k = n[0]
        if k == "opt":
            out.add(("top", "opt", n[1]))
        elif k == "block":
            if spec is None:
                sub = n[1]
            else:
                out.add((spec, "block", n[1]))
                sub = next(s[2] for s in BLOCKS[spec] if s[0] == "block" and s[1] == n[1])
            for c in n[3]:
                walk(c, sub)
        elif k == "transform":
            out.add((spec, "transform", n[1]))
            for dt in n[2]:
                for s in dt:
                    out.add(("data_transform", s[0], s[1]))
        else:
            out.add((spec, k, n[1]))

    for n in nodes:
        walk(n, None)
    return out


# ----------------------------------------------------------------------------------------------- dictionary model (C11)
from . import profile_literal as _L

LIST_PATHS = {
    "process-inject.transform-x86",
    "process-inject.execute",
    "http-post.server.output",
    "http-post.client.id",
    "http-post.client.output",
    "http-stager.server.output",
    "http-get.client.metadata",
    "http-get.server.output",
}


def _inner(lit):
    return lit[1:-1]


def model_dict(nodes):
    """Expected dictionary view of an AST.

    Returns (model, loose) - ``model`` maps key -> list of values for everything whose shape is documented:
    options / keyword+string statements (literal text), header/parameter/strrep pairs (tuple of texts), statements of
    the documented list blocks ((keyword, bytes...) or bare keyword) and bare-keyword lists such as stage.beacon_gate.
    ``loose`` collects the paths of data-transform blocks outside the documented list paths together with their number
    of statements; their exact shape is not fixed by the documentation and they are checked metamorphically only.
    """
    model = {}
    loose = {}

    def add(key, value):
        model.setdefault(key, []).append(value)

    def walk(n, path):
        k = n[0]
        if k in ("opt", "set", "kw1"):
            p = ".".join(path)
            if p in LIST_PATHS:
                add(p, (n[1], _L.decode(_inner(n[2]))))
            else:
                add(".".join(path + [n[1]]), _inner(n[2]))
        elif k == "kw2":
            p = ".".join(path)
            if p in LIST_PATHS:
                add(p, (n[1], _L.decode(_inner(n[2])), _L.decode(_inner(n[3]))))
            else:
                add(".".join(path + [n[1]]), (_inner(n[2]), _inner(n[3])))
        elif k == "kw0":
            add(".".join(path), n[1])
        elif k == "block":
            sub = path + [n[1]]
            if n[2] is not None and n[2] != '"default"':
                sub = sub + [n[2]]
            for c in n[3]:
                walk(c, sub)
        elif k == "transform":
            p = ".".join(path + [n[1]])
            stmts = [s for dt in n[2] for s in dt]
            if p in LIST_PATHS:
                for s in stmts:
                    if s[0] == "kw0":
                        add(p, s[1])
                    else:
                        add(p, (s[1], _L.decode(_inner(s[2]))))
            else:
                loose[p] = loose.get(p, 0) + len(stmts)

    for n in nodes:
        walk(n, [])
    return model, loose


# keyword -> grammar alias (tree node name) for the builder API
ALIAS_EXCEPTIONS = {
    ("https-certificate", "C"): "country", ("https-certificate", "CN"): "common_name", ("https-certificate", "L"): "locality",
    ("https-certificate", "OU"): "org_unit", ("https-certificate", "O"): "org", ("https-certificate", "ST"): "state",
    ("execute", "kw1", "CreateThread"): "createthread_special", ("execute", "kw1", "CreateRemoteThread"): "createremotethread_special",
}  # fmt: skip


def alias_of(spec, kind, keyword):
    if (spec, kind, keyword) in ALIAS_EXCEPTIONS:
        return ALIAS_EXCEPTIONS[(spec, kind, keyword)]
    if (spec, keyword) in ALIAS_EXCEPTIONS:
        return ALIAS_EXCEPTIONS[(spec, keyword)]
    return keyword.lower().replace("-", "_")
