"""Reference decoder for Malleable C2 profile string literals (no library imports).

Escapes: \\xHH, \\u00HH (value = low byte), \\n, \\r, \\t, \\\\, \\", \\' ; every other character stands for the byte
of its code point (0-255).
"""

SIMPLE = {"n": 0x0A, "r": 0x0D, "t": 0x09, "\\": 0x5C, '"': 0x22, "'": 0x27}


def decode(inner: str) -> bytes:
    """inner = literal text without the surrounding double quotes."""
    out = bytearray()
    i = 0
    n = len(inner)
    while i < n:
        c = inner[i]
        if c == "\\" and i + 1 < n:
            e = inner[i + 1]
            if e == "x" and i + 3 < n + 0 and i + 4 <= n:
                out.append(int(inner[i + 2 : i + 4], 16))
                i += 4
                continue
            if e == "u" and i + 6 <= n:
                out.append(int(inner[i + 4 : i + 6], 16))
                i += 6
                continue
            if e in SIMPLE:
                out.append(SIMPLE[e])
                i += 2
                continue
            raise ValueError(f"unknown escape \\{e} at {i}")
        out.append(ord(c) & 0xFF)
        i += 1
    return bytes(out)


def well_terminated(literal: str) -> bool:
    """A literal is one token iff it starts and ends with an unescaped double quote and has none inside."""
    if len(literal) < 2 or literal[0] != '"' or literal[-1] != '"':
        return False
    inner = literal[1:-1]
    i = 0
    while i < len(inner):
        if inner[i] == "\\":
            i += 2
            continue
        if inner[i] == '"':
            return False
        i += 1
    return i == len(inner)  # a trailing lone backslash would have escaped the closing quote
