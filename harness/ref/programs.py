"""Independent reference encoders for Cobalt Strike's structured setting values (no library imports).

Written from the wire formats:
  * transform program (settings 12/13): sequence of big-endian u32 opcodes; BUILD(7) + u32 kind (0 = metadata for
    http-get / id for http-post, 1 = output); argument steps carry u32 length + bytes; 0 terminates.
  * recover program (setting 11): opcodes; APPEND/PREPEND carry a u32 length only; 0 terminates.
  * execute list (setting 51): u8 opcodes; 6/7 carry u16be offset, u32be len + module, u32be len + function; 0 ends.
  * process-inject transform (46/47): u32be len + prepend bytes, u32be len + append bytes.
  * sleep-mask sections (42): little-endian u32 (start,end) pairs, (0,0) terminates.
  * pivot frame header (57/58): u16be (len(frame)+4) + frame.
  * BeaconGate (78): 23 x u8 flags.
"""

import struct

OPCODES = {
    "APPEND": 1,
    "PREPEND": 2,
    "BASE64": 3,
    "PRINT": 4,
    "PARAMETER": 5,
    "HEADER": 6,
    "BUILD": 7,
    "NETBIOS": 8,
    "_PARAMETER": 9,
    "_HEADER": 10,
    "NETBIOSU": 11,
    "URI_APPEND": 12,
    "BASE64URL": 13,
    "STRREP": 14,
    "MASK": 15,
    "_HOSTHEADER": 16,
}
ENABLE_STEPS = ("BASE64", "BASE64URL", "NETBIOS", "NETBIOSU", "URI_APPEND", "PRINT", "MASK")
ARGUMENT_STEPS = ("_HEADER", "HEADER", "PARAMETER", "_PARAMETER", "_HOSTHEADER", "APPEND", "PREPEND")
RECOVER_STEPS = ("append", "prepend", "base64", "print", "netbios", "netbiosu", "base64url", "mask")

EXECUTORS = {
    "CreateThread": 1,
    "SetThreadContext": 2,
    "CreateRemoteThread": 3,
    "RtlCreateUserThread": 4,
    "NtQueueApcThread": 5,
    "CreateThread_": 6,
    "CreateRemoteThread_": 7,
    "NtQueueApcThread-s": 8,
}

BEACON_GATE_APIS = [
    "InternetOpenA",
    "InternetConnectA",
    "VirtualAlloc",
    "VirtualAllocEx",
    "VirtualProtect",
    "VirtualProtectEx",
    "VirtualFree",
    "GetThreadContext",
    "SetThreadContext",
    "ResumeThread",
    "CreateThread",
    "CreateRemoteThread",
    "OpenProcess",
    "OpenThread",
    "CloseHandle",
    "CreateFileMappingA",
    "MapViewOfFile",
    "UnmapViewOfFile",
    "VirtualQuery",
    "DuplicateHandle",
    "ReadProcessMemory",
    "WriteProcessMemory",
    "ExitThread",
]
GATE_GROUPS = {
    "Comms": set(BEACON_GATE_APIS[0:2]),
    "Core": set(BEACON_GATE_APIS[2:22]),
    "Cleanup": set(BEACON_GATE_APIS[22:23]),
}
GATE_GROUPS["All"] = set(BEACON_GATE_APIS)


def enc_transform(steps, build0="metadata", terminator=True, pad_to=None) -> bytes:
    """steps: [(NAME, arg)] with BUILD arg in {build0, 'output'} -> 0/1."""
    out = bytearray()
    for name, arg in steps:
        out += struct.pack(">I", OPCODES[name])
        if name == "BUILD":
            out += struct.pack(">I", 1 if arg == "output" else 0)
        elif name in ARGUMENT_STEPS:
            out += struct.pack(">I", len(arg)) + arg
    if terminator:
        out += b"\x00\x00\x00\x00"
    if pad_to and len(out) < pad_to:
        out += b"\x00" * (pad_to - len(out))
    return bytes(out)


def enc_recover(steps, terminator=True, pad_to=None) -> bytes:
    """steps: [(name lower-case, int length | True)]"""
    out = bytearray()
    for name, arg in steps:
        out += struct.pack(">I", OPCODES[name.upper()])
        if name in ("append", "prepend"):
            out += struct.pack(">I", arg)
    if terminator:
        out += b"\x00\x00\x00\x00"
    if pad_to and len(out) < pad_to:
        out += b"\x00" * (pad_to - len(out))
    return bytes(out)


def enc_execute(entries, pad_to=None, name_pad=1) -> bytes:
    """entries: [name | (name_with_underscore, module, function, offset)] ; names are NUL terminated/padded."""
    out = bytearray()
    for e in entries:
        if isinstance(e, (tuple, list)):
            name, module, func, off = e
            m = module + b"\x00" * name_pad
            f = func + b"\x00" * name_pad
            out += struct.pack(">BH", EXECUTORS[name], off)
            out += struct.pack(">I", len(m)) + m + struct.pack(">I", len(f)) + f
        else:
            out += bytes([EXECUTORS[e]])
    out += b"\x00"
    if pad_to and len(out) < pad_to:
        out += b"\x00" * (pad_to - len(out))
    return bytes(out)


def enc_procinj_transform(prepend: bytes, append: bytes, pad_to=None) -> bytes:
    out = struct.pack(">I", len(prepend)) + prepend + struct.pack(">I", len(append)) + append
    if pad_to and len(out) < pad_to:
        out += b"\x00" * (pad_to - len(out))
    return out


def enc_sections(pairs, terminator=True, pad_pairs=0) -> bytes:
    out = b"".join(struct.pack("<II", a, b) for a, b in pairs)
    if terminator:
        out += b"\x00" * 8
    out += b"\x00" * (8 * pad_pairs)
    return out


def enc_pivot_frame(frame: bytes, pad_to=None) -> bytes:
    out = struct.pack(">H", len(frame) + 4) + frame
    if pad_to and len(out) < pad_to:
        out += b"\x00" * (pad_to - len(out))
    return out


def enc_beacon_gate(flags) -> bytes:
    """flags: iterable of 23 truthy/falsy values (or a set of API names)."""
    if isinstance(flags, (set, frozenset)):
        flags = [api in flags for api in BEACON_GATE_APIS]
    flags = list(flags)
    assert len(flags) == 23
    return bytes(1 if f else 0 for f in flags)


def gate_expand(names):
    """Expand a decoded BeaconGate name list (groups + individual APIs) to the set of APIs."""
    out = set()
    for n in names:
        if n in GATE_GROUPS:
            out |= GATE_GROUPS[n]
        else:
            out.add(n)
    return out


def cstr(b: bytes, pad_to=None, pad=b"\x00") -> bytes:
    out = b + b"\x00"
    if pad_to and len(out) < pad_to:
        out += pad * (pad_to - len(out))
    return out
