"""Independent reference model of the beacon configuration block (imports nothing from dissect.cobaltstrike).

Wire format (all big-endian):  u16 index | u16 type | u16 length | value[length]  ... terminated by index 0 or
end of data.  Types: 0 NONE, 1 SHORT, 2 INT, 3 PTR.
"""

import struct

TYPE_NONE, TYPE_SHORT, TYPE_INT, TYPE_PTR = 0, 1, 2, 3

HEADER = b"\x00\x01\x00\x01\x00\x02\x00"  # index 1 (PROTOCOL), SHORT, length 2, high byte of the value


def enc_setting(index: int, typ: int, value: bytes, length=None) -> bytes:
    if length is None:
        length = len(value)
    return struct.pack(">HHH", index, typ, length) + value


def short(index, v):
    return enc_setting(index, TYPE_SHORT, struct.pack(">H", v))


def int_(index, v):
    return enc_setting(index, TYPE_INT, struct.pack(">I", v))


def ptr(index, b, pad_to=None):
    if pad_to is not None and len(b) < pad_to:
        b = b + b"\x00" * (pad_to - len(b))
    return enc_setting(index, TYPE_PTR, b)


def encode(settings, terminator=True, pad_to=None, pad_byte=b"\x00") -> bytes:
    """settings: iterable of (index, type, value bytes)."""
    out = b"".join(enc_setting(i, t, v) for (i, t, v) in settings)
    if terminator:
        out += b"\x00\x00"
    if pad_to is not None and len(out) < pad_to:
        out += pad_byte * (pad_to - len(out))
    return out


def decode(block: bytes, with_end=False):
    """Reference decoder: list of (index, type, length, value) in on-disk order (with_end: also the offset just
    after the terminator, or None when decoding stopped for another reason).

    Stops at a zero index or when a full record can no longer be read (end of data).  Implements the one
    documented edge: a User-Agent (index 9) of length 0x80 holding 128 non-NUL bytes continues up to (not
    including) the next NUL byte.
    """
    out = []
    pos = 0
    n = len(block)
    end_pos = None
    while True:
        if block[pos : pos + 2] == b"\x00\x00":
            end_pos = pos + 2
            break
        if pos + 6 > n:
            break
        index, typ, length = struct.unpack(">HHH", block[pos : pos + 6])
        if pos + 6 + length > n:
            break
        value = block[pos + 6 : pos + 6 + length]
        pos += 6 + length
        if index == 9 and length == 0x80 and len(value.rstrip(b"\x00")) >= 0x80:
            end = block.find(b"\x00", pos)
            if end == -1:
                # no NUL before end of data: the continuation is undefined (see C08); take the rest
                end = n
            value += block[pos:end]
            pos = end
        out.append((index, typ, length, value))
    return (out, end_pos) if with_end else out


_TABLES = [bytes(i ^ k for i in range(256)) for k in range(256)]


def xor1(data: bytes, key: int) -> bytes:
    if key == 0:
        return bytes(data)
    return bytes(data).translate(_TABLES[key])
