"""Independent reference encoder/decoder for Malleable C2 data transforms over an abstract HTTP message.

A message is a dict {uri: bytes, params: {bytes: bytes}, headers: {bytes: bytes}, body: bytes}.
A client program is a list of (NAME, arg) steps in profile order (the decoded form of settings 12/13):
    BUILD kind | APPEND b | PREPEND b | BASE64 | BASE64URL | NETBIOS | NETBIOSU | MASK |
    PRINT | HEADER name | PARAMETER name | URI_APPEND | _HEADER b"K: v" | _PARAMETER b"k=v" | _HOSTHEADER b"Host: v"
A server program is the recover program (setting 11): [(print,True), (append,n), (prepend,n), (base64,True) ...] in the
order the beacon undoes them.

Own implementations of base64 / netbios / mask - nothing is imported from the library or from ``base64``.
"""

_B64 = b"ABCDEFGHIJKLMNOPQRSTUVWXYZabcdefghijklmnopqrstuvwxyz0123456789+/"
_B64URL = b"ABCDEFGHIJKLMNOPQRSTUVWXYZabcdefghijklmnopqrstuvwxyz0123456789-_"


def b64encode(data: bytes, alphabet=_B64, pad=True) -> bytes:
    out = bytearray()
    for i in range(0, len(data), 3):
        chunk = data[i : i + 3]
        n = int.from_bytes(chunk + b"\x00" * (3 - len(chunk)), "big")
        chars = [alphabet[(n >> s) & 63] for s in (18, 12, 6, 0)]
        keep = len(chunk) + 1
        out += bytes(chars[:keep])
        if pad:
            out += b"=" * (4 - keep)
    return bytes(out)


def b64decode(data: bytes, alphabet=_B64) -> bytes:
    table = {c: i for i, c in enumerate(alphabet)}
    data = data.rstrip(b"=")
    out = bytearray()
    for i in range(0, len(data), 4):
        chunk = data[i : i + 4]
        n = 0
        for c in chunk:
            n = (n << 6) | table[c]
        n <<= 6 * (4 - len(chunk))
        out += n.to_bytes(3, "big")[: len(chunk) - 1]
    return bytes(out)


def netbios_encode(data: bytes, base: int) -> bytes:
    out = bytearray()
    for b in data:
        out.append(base + (b >> 4))
        out.append(base + (b & 15))
    return bytes(out)


def netbios_decode(data: bytes, base: int) -> bytes:
    return bytes(((data[i] - base) << 4) | (data[i + 1] - base) for i in range(0, len(data) - 1, 2))


def mask_encode(data: bytes, key: bytes) -> bytes:
    return key + bytes(b ^ key[i % 4] for i, b in enumerate(data))


def mask_decode(data: bytes) -> bytes:
    key, body = data[:4], data[4:]
    return bytes(b ^ key[i % 4] for i, b in enumerate(body))


ENCODERS = ("APPEND", "PREPEND", "BASE64", "BASE64URL", "NETBIOS", "NETBIOSU", "MASK")
TERMINATIONS = ("PRINT", "HEADER", "PARAMETER", "URI_APPEND")
STATICS = ("_HEADER", "_PARAMETER", "_HOSTHEADER")


def empty_message(uri=b"", params=None, headers=None, body=b""):
    return {"uri": uri, "params": dict(params or {}), "headers": dict(headers or {}), "body": body}


def _encode_one(name, arg, data, masks, pad_b64url):
    if name == "APPEND":
        return data + arg
    if name == "PREPEND":
        return arg + data
    if name == "BASE64":
        return b64encode(data)
    if name == "BASE64URL":
        return b64encode(data, _B64URL, pad=pad_b64url)
    if name == "NETBIOS":
        return netbios_encode(data, 0x61)
    if name == "NETBIOSU":
        return netbios_encode(data, 0x41)
    if name == "MASK":
        return mask_encode(data, masks.pop(0) if masks else b"\x5a\xa5\x0f\xf0")
    raise ValueError(name)


def _decode_one(name, arg, data):
    if name == "APPEND":
        n = arg if isinstance(arg, int) else len(arg)
        return data[: len(data) - n]
    if name == "PREPEND":
        n = arg if isinstance(arg, int) else len(arg)
        return data[n:]
    if name == "BASE64":
        return b64decode(data)
    if name == "BASE64URL":
        return b64decode(data, _B64URL)
    if name == "NETBIOS":
        return netbios_decode(data, 0x61)
    if name == "NETBIOSU":
        return netbios_decode(data, 0x41)
    if name == "MASK":
        return mask_decode(data)
    raise ValueError(name)


def split_blocks(steps):
    """-> (blocks [(kind, encoders [(name,arg)], termination (name,arg))], statics [(name,arg)])"""
    blocks, statics = [], []
    cur = None
    for name, arg in steps:
        if name == "BUILD":
            cur = [arg, [], None]
            blocks.append(cur)
        elif name in STATICS:
            statics.append((name, arg))
        elif name in TERMINATIONS:
            cur[2] = (name, arg)
        elif name in ENCODERS:
            cur[1].append((name, arg))
        else:
            raise ValueError(name)
    return blocks, statics


def client_encode(steps, fields, initial=None, masks=None, pad_b64url=True):
    """fields: {'metadata'|'id'|'output': bytes}.  Returns the message dict."""
    msg = empty_message(**(initial or {}))
    masks = list(masks or [])
    blocks, statics = split_blocks(steps)
    for kind, encoders, term in blocks:
        data = fields.get(kind) or b""
        for name, arg in encoders:
            data = _encode_one(name, arg, data, masks, pad_b64url)
        tname, targ = term
        if tname == "PRINT":
            msg["body"] = data
        elif tname == "HEADER":
            msg["headers"][targ] = data
        elif tname == "PARAMETER":
            msg["params"][targ] = data
        elif tname == "URI_APPEND":
            msg["uri"] = msg["uri"] + data
    for name, arg in statics:
        if name in ("_HEADER", "_HOSTHEADER"):
            k, _, v = arg.partition(b": ")
            msg["headers"][k] = v
        else:
            k, _, v = arg.partition(b"=")
            msg["params"][k] = v
    return msg


def client_decode(steps, msg, base_uri=b""):
    """-> {'kind': bytes} for every block of the program."""
    out = {}
    blocks, _ = split_blocks(steps)
    for kind, encoders, term in blocks:
        tname, targ = term
        if tname == "PRINT":
            data = msg["body"]
        elif tname == "HEADER":
            data = msg["headers"][targ]
        elif tname == "PARAMETER":
            data = msg["params"][targ]
        else:
            data = msg["uri"][len(base_uri) :]
        for name, arg in reversed(encoders):
            data = _decode_one(name, arg, data)
        out[kind] = data
    return out


def server_encode(rsteps, output, fill=None, masks=None, pad_b64url=True):
    """rsteps: recover program [(print,True),(append,n),...]; returns the response body."""
    masks = list(masks or [])
    fill = list(fill or [])
    data = output
    for name, arg in reversed([s for s in rsteps if s[0] != "print"]):
        up = name.upper()
        if up in ("APPEND", "PREPEND"):
            blob = fill.pop(0) if fill else b"Z" * arg
            blob = (blob * (arg // max(1, len(blob)) + 1))[:arg] if arg else b""
            data = _encode_one(up, blob, data, masks, pad_b64url)
        else:
            data = _encode_one(up, None, data, masks, pad_b64url)
    return data


def server_decode(rsteps, body):
    data = body
    for name, arg in rsteps:
        if name == "print":
            data = body
        else:
            data = _decode_one(name.upper(), arg, data)
    return data
