"""Independent reference model of Cobalt Strike's XorEncoded stage format (imports nothing from the library).

    | stub ... | nonce (4) | nonce XOR u32le(len(encoded)) (4) | encoded ... |
    encoded[0:4]   = plain[0:4]   XOR nonce
    encoded[i:i+4] = plain[i:i+4] XOR encoded[i-4:i]        (a short tail uses the prefix of the previous dword)
"""

import struct


def _x(a: bytes, b: bytes) -> bytes:
    return bytes(x ^ y for x, y in zip(a, b))


def encode_body(plain: bytes, nonce: bytes) -> bytes:
    out = bytearray()
    prev = nonce
    for i in range(0, len(plain), 4):
        blk = _x(plain[i : i + 4], prev)
        out += blk
        prev = blk
    return bytes(out)


def decode_body(enc: bytes, nonce: bytes) -> bytes:
    out = bytearray()
    prev = nonce
    for i in range(0, len(enc), 4):
        blk = enc[i : i + 4]
        out += _x(blk, prev)
        prev = blk
    return bytes(out)


def build_stage(plain: bytes, nonce: bytes, stub: bytes = b"", marker: bool = True, size_ok: bool = True, bad_size: int = 0) -> bytes:
    """stub [+ ff ff ff] + nonce + size + encoded.  With size_ok the size dword is the true encoded length."""
    enc = encode_body(plain, nonce)
    size = len(enc) if size_ok else bad_size
    head = stub + (b"\xff\xff\xff" if marker else b"")
    return head + nonce + _x(nonce, struct.pack("<I", size & 0xFFFFFFFF)) + enc


def nonce_offset(stub: bytes, marker: bool) -> int:
    return len(stub) + (3 if marker else 0)


def size_candidates(raw: bytes, maxrange: int = 1024):
    """Offsets i < maxrange where u32le(raw[i:i+4] ^ raw[i+4:i+8]) + i + 8 == len(raw)."""
    out = []
    for i in range(maxrange):
        if i + 8 > len(raw):
            break
        if struct.unpack("<I", _x(raw[i : i + 4], raw[i + 4 : i + 8]))[0] + i + 8 == len(raw):
            out.append(i)
    return out


def marker_candidates(raw: bytes, maxrange: int = 1024):
    out = []
    p = raw.find(b"\xff\xff\xff")
    while p != -1 and p <= maxrange + 2:
        out.append(p + 3)
        p = raw.find(b"\xff\xff\xff", p + 1)
    return out
