"""Shared runner: sharding, seeds, evidence, replay files, VIOLATION / KNOWN-FINDING lines.

A property module (harness/props/cNN.py) defines

    PROPERTY = "C20"; LEVEL = "exploration"; RULE = "..."; ASSUMPTIONS = [...]
    SUBS = [Sub(...), ...]
    def anchors(): ...          # optional self-checks of the reference models; failure => exit 2

Every generated case is a JSON-able value (bytes / tuples allowed, see jsonx) and every sub-check has an
``execute(case, stats)`` that re-runs exactly one case without Hypothesis - that is what --replay uses.
"""

from __future__ import annotations

import collections
import hashlib
import importlib
import json
import multiprocessing
import os
import sys
import time
import traceback
from dataclasses import dataclass, field
from typing import Any, Callable, Dict, Optional

from . import jsonx

ROOT = os.path.dirname(os.path.dirname(os.path.abspath(__file__)))
REPO = os.environ.get("VERIF_REPO", "/repo")
NPROC = int(os.environ.get("VERIF_PROCS", "16"))


# saved cases the parent process executed before forking the workers (known findings, regression files): they are
# part of what a worker's library state has seen
_PARENT_HISTORY = []


class Violation(Exception):
    """The property does not hold for a case. ``key`` names the root-cause class (used for known findings)."""

    def __init__(self, key: str, message: str, case: Any = None):
        super().__init__(f"{key}: {message}")
        self.key = key
        self.message = message
        self.case = case


class HarnessError(Exception):
    pass


class Discard(Exception):
    """Raised by execute() when a generated case lies outside the property's domain (counted, not a failure)."""


class Stats:
    def __init__(self):
        self.evaluations = 0
        self.nt = set()
        self.classes = collections.Counter()
        self.samples = []
        self.known = collections.Counter()
        self.discards = collections.Counter()
        self.steps = 0
        self.history = None  # set by the worker: cases completed so far in this process (for sequence replays)
        self.in_run = False

    def note(self, case, nontrivial: bool, classes=(), sample=None):
        """Called by execute() once per case: classify it and remember distinct non-trivial ones."""
        if self.history is not None and not self.in_run:
            self.history.append(case)  # state machines: the finished history is the case
        for c in classes:
            self.classes[c] += 1
        if nontrivial:
            d = jsonx.digest(case)
            if d not in self.nt:
                self.nt.add(d)
                if len(self.samples) < 4:
                    self.samples.append(jsonx.brief(sample if sample is not None else case))
        else:
            self.classes["trivial"] += 1

    def count(self, name, n=1):
        self.classes[name] += n

    def collect(self, violation, case):
        """Collect mode: remember a violation (smallest case per root-cause key) and keep searching."""
        if not hasattr(self, "collected"):
            self.collected = {}
        size = len(jsonx.dumps(case))
        cur = self.collected.get(violation.key)
        if cur is None or size < cur[0]:
            self.collected[violation.key] = (size, violation.message, case)

    def discard(self, why):
        self.discards[why] += 1


@dataclass
class Sub:
    name: str
    execute: Callable  # (case, stats) -> None, raises Violation
    strategy: Optional[Callable] = None  # () -> hypothesis strategy of cases
    enumerate: Optional[Callable] = None  # (tier, shard, nshards) -> iterable of cases
    machine: Optional[Callable] = None  # (stats, rec) -> RuleBasedStateMachine class
    custom: Optional[Callable] = None  # (tier, seed, shard, nshards, stats, rec) -> None
    examples: Dict[str, int] = field(default_factory=lambda: {"quick": 1600, "thorough": 32000})
    shards: Dict[str, int] = field(default_factory=lambda: {"quick": 16, "thorough": 16})
    steps: int = 30
    exhaustive: bool = False
    doc: str = ""


class Recorder:
    """Keeps the smallest failing case seen and bounds the time Hypothesis may spend shrinking."""

    def __init__(self, known_keys=(), shrink_budget=20.0):
        self.known_keys = set(known_keys)
        self.best = None
        self.best_size = None
        self.t0 = None
        self.budget = shrink_budget
        self.stopped = False
        # cases completed in this process before the first failure: a failure that depends on what earlier cases
        # left behind in the library (process-wide state) is replayed as that sequence
        self.history = collections.deque(maxlen=400)
        self.first = None
        self.prelude = os.environ.get("VERIF_NO_PRELUDE") != "1"

    def _failed(self, v: Violation, case):
        if v.case is None:
            v.case = case
        if self.first is None:
            self.first = (v.case, list(self.history))
        size = len(jsonx.dumps(v.case))
        if self.best is None or size < self.best_size:
            self.best, self.best_size = v, size
        now = time.monotonic()
        if self.t0 is None:
            self.t0 = now
        elif now - self.t0 > self.budget:
            self.stopped = True

    def run(self, execute, case, stats: Stats):
        if self.stopped:
            return
        stats.evaluations += 1
        stats.in_run = True
        n = stats.evaluations
        if self.prelude and n >= 4 and (n % 64 == 0 or n & (n - 1) == 0):  # cases 4, 8, 16, 32, 64, 128, 192, ...
            from .failures import provoke

            provoke()  # documented failures right before a valid case (see failures.py); also run before every replay
        try:
            execute(case, stats)
        except Discard as d:
            stats.discard(str(d) or "discard")
        except Violation as v:
            if v.key in self.known_keys:
                stats.known[v.key] += 1
                return
            self._failed(v, case)
            raise
        finally:
            stats.in_run = False
        if self.first is None:
            self.history.append(case)

    def step(self, fn, case_fn, stats: Stats):
        """For state machines: run one operation; on violation attach the history so far as the case."""
        if self.stopped:
            return None
        stats.steps += 1
        try:
            return fn()
        except Violation as v:
            if v.key in self.known_keys:
                stats.known[v.key] += 1
                return None
            self._failed(v, case_fn())
            raise


def derive_seed(seed: int, *parts) -> int:
    h = hashlib.sha256(("%d|" % seed + "|".join(str(p) for p in parts)).encode()).digest()
    return int.from_bytes(h[:8], "big")


def shard_iter(it, shard, nshards):
    for i, x in enumerate(it):
        if i % nshards == shard:
            yield x


def load_known(prop):
    path = os.path.join(ROOT, "known_findings.json")
    if not os.path.exists(path):
        return []
    with open(path) as f:
        data = json.load(f)
    return [e for e in data.get("findings", []) if e.get("property") == prop]


def _hyp_settings(n, steps=None, shrink=True):
    from hypothesis import HealthCheck, Phase, Verbosity, settings

    kw = dict(
        max_examples=max(1, n),
        database=None,
        deadline=None,
        derandomize=False,
        report_multiple_bugs=False,
        suppress_health_check=list(HealthCheck),
        print_blob=False,
        verbosity=Verbosity.quiet,
        phases=[Phase.generate, Phase.shrink] if shrink else [Phase.generate],
    )
    if steps is not None:
        kw["stateful_step_count"] = steps
    return settings(**kw)


def _rotating(strategy):
    """Hypothesis runs a large share of its examples as 'an earlier prefix + the simplest possible tail' (measured here:
    about 40 % of all examples), so whatever a fixed_dictionaries strategy draws last is the simplest value in almost
    half of the cases.  Drawing the fields in a rotated order (the rotation is drawn first and shrinks to 0) spreads
    that effect evenly over all fields instead of starving the last ones."""
    from hypothesis import strategies as st

    inner = getattr(strategy, "wrapped_strategy", strategy)
    mapping = getattr(inner, "mapping", None)
    if not isinstance(mapping, dict) or len(mapping) < 3 or os.environ.get("VERIF_NO_ROTATE") == "1":
        return strategy
    keys = list(mapping)

    @st.composite
    def rotated(draw):
        r = draw(st.integers(0, len(keys) - 1))
        got = {}
        for k in keys[r:] + keys[:r]:
            got[k] = draw(mapping[k])
        return {k: got[k] for k in keys}

    return rotated()


def _worker(task):
    modname, subname, shard, nshards, tier, seed, known_keys = task
    t0 = time.time()
    stats = Stats()
    rec = Recorder(known_keys, shrink_budget=15.0 if tier == "quick" else 90.0)
    stats.history = rec.history
    out = dict(sub=subname, shard=shard, error=None, violation=None)
    try:
        sys.setrecursionlimit(10000)
        mod = importlib.import_module(modname)
        sub = next(s for s in mod.SUBS if s.name == subname)
        total = sub.examples.get(tier, sub.examples.get("quick", 100))
        scale = float(os.environ.get("VERIF_SCALE", "1"))
        n = max(1, int(total * scale) // nshards)
        hseed = derive_seed(seed, mod.PROPERTY, subname, shard)
        if sub.enumerate is not None:
            for case in sub.enumerate(tier, shard, nshards):
                try:
                    rec.run(sub.execute, case, stats)
                except Violation:
                    break
        elif sub.strategy is not None:
            import hypothesis
            from hypothesis import given

            @hypothesis.seed(hseed)
            @_hyp_settings(n)
            @given(_rotating(sub.strategy()))
            def test(case):
                rec.run(sub.execute, case, stats)

            try:
                test()
            except Violation:
                pass
            except BaseException:
                if rec.best is None:
                    raise
        elif sub.machine is not None:
            import hypothesis
            from hypothesis.stateful import run_state_machine_as_test

            M = hypothesis.seed(hseed)(sub.machine(stats, rec))
            try:
                run_state_machine_as_test(M, settings=_hyp_settings(n, steps=sub.steps))
            except Violation:
                pass
            except BaseException:
                if rec.best is None:
                    raise
        elif sub.custom is not None:
            try:
                sub.custom(tier=tier, seed=hseed, shard=shard, nshards=nshards, stats=stats, rec=rec)
            except Violation as v:
                if v.key in rec.known_keys:
                    stats.known[v.key] += 1
                else:
                    rec._failed(v, v.case)
        if rec.best is not None:
            v = rec.best
            out["violation"] = dict(key=v.key, message=v.message, case=jsonx.enc(v.case))
            if rec.first is not None:
                first, prior = rec.first
                enc_prior, budget = [], 8 << 20
                for c in reversed(prior):
                    e = dict(sub=subname, case=jsonx.enc(c))
                    budget -= len(json.dumps(e))
                    if budget < 0:
                        break
                    enc_prior.insert(0, e)
                out["violation"]["first"] = jsonx.enc(first)
                out["violation"]["prior"] = list(_PARENT_HISTORY) + enc_prior
    except BaseException:
        out["error"] = traceback.format_exc()
    collected = []
    for key, (size, msg, case) in getattr(stats, "collected", {}).items():
        if key in rec.known_keys:
            stats.known[key] += 1
        else:
            collected.append(dict(key=key, message=msg, case=jsonx.enc(case)))
    out["collected"] = collected
    out.update(
        evaluations=stats.evaluations,
        nt=stats.nt,
        classes=dict(stats.classes),
        samples=stats.samples,
        known=dict(stats.known),
        discards=dict(stats.discards),
        steps=stats.steps,
        wall=time.time() - t0,
    )
    return out


def replay_case(mod, subname, case):
    """Run one saved case. Returns None if the property held, else the Violation."""
    sub = next((s for s in mod.SUBS if s.name == subname), None)
    if sub is None:
        raise HarnessError(f"unknown sub-check {subname!r} in {mod.PROPERTY}")
    st = Stats()
    try:
        sub.execute(case, st)
    except Discard:
        return None
    except Violation as v:
        if v.case is None:
            v.case = case
        return v
    for key, (_size, msg, ccase) in getattr(st, "collected", {}).items():
        return Violation(key, msg, ccase)  # collect-mode sub-check: the first collected violation
    return None


def save_replay(prop, subname, vio, sequence=None):
    d = os.path.join(ROOT, "replays", prop)
    os.makedirs(d, exist_ok=True)
    body = dict(property=prop, sub=subname, key=vio["key"], message=vio["message"], case=vio["case"])
    if sequence:
        body["sequence"] = sequence  # cases executed (in this order, results ignored) before ``case``
    blob = json.dumps(body, sort_keys=True, indent=1)
    name = hashlib.sha1(blob.encode()).hexdigest()[:16] + ".json"
    path = os.path.join(d, name)
    with open(path, "w") as f:
        f.write(blob)
    return path


def load_replay(path):
    with open(path) as f:
        body = json.load(f)
    return body, jsonx.dec(body["case"])


def _reproduces(prop, path):
    """Does the saved replay report a violation when run in a fresh process?  (None: could not tell)"""
    import subprocess

    try:
        r = subprocess.run([sys.executable, "-m", "harness.main", prop, "--replay", path], cwd=ROOT, capture_output=True, text=True, timeout=900)
    except Exception:
        return None
    return {0: False, 1: True}.get(r.returncode)


def confirm_replay(prop, subname, vio, path):
    """A failure found late in a run may depend on what earlier cases left behind in the library; the shrunk case then
    passes on its own.  Confirm the replay file in a fresh process and fall back to the shortest suffix of the cases
    that preceded the first failure.  Returns (path, note)."""
    ok = _reproduces(prop, path)
    if ok is not False:
        return path, None
    prior, first = vio.get("prior") or [], vio.get("first")
    if first is not None:
        v1 = dict(vio, case=first)
        k = 0
        while True:
            seq = prior[len(prior) - k :] if k else []
            p = save_replay(prop, subname, v1, sequence=seq)
            if _reproduces(prop, p):
                os.remove(path) if os.path.exists(path) and p != path else None
                return p, f"violation depends on process-wide state: replay is a sequence of {len(seq) + 1} cases"
            os.remove(p) if p != path and os.path.exists(p) else None
            if k >= len(prior):
                break
            k = min(len(prior), max(1, k * 2))
    return path, "replay does not reproduce in a fresh process (the violation depends on earlier cases of this run)"


def run_property(prop: str, tier: str, seed: int, only=None, nproc=NPROC) -> int:
    t0 = time.time()
    modname = f"harness.props.{prop.lower()}"
    mod = importlib.import_module(modname)
    assert mod.PROPERTY == prop
    violations = []  # (subname, vio dict, replay path)
    known_lines = []
    notes = []

    # 0. reference-model anchors (harness self-check) -> exit 2 on failure, never VIOLATION
    if hasattr(mod, "anchors"):
        try:
            mod.anchors()
        except Violation:
            raise
        except Exception:
            print(f"HARNESS-ERROR property={prop} anchor check failed:\n{traceback.format_exc()}")
            return 2

    # 1. known findings (committed file; never written at run time)
    known = [e for e in load_known(prop) if e.get("status") == "known"]
    known_keys = [e["key"] for e in known]
    for e in known:
        rp = os.path.join(ROOT, e["replay"])
        body, case = load_replay(rp)
        _PARENT_HISTORY.append(dict(sub=body["sub"], case=body["case"]))
        v = replay_case(mod, body["sub"], case)
        if v is None:
            notes.append(f"known finding {e['key']} no longer reproduces on this tree")
            print(f"NOTE property={prop} known finding {e['key']} no longer reproduces ({e['replay']})")
        elif v.key == e["key"]:
            known_lines.append(f"KNOWN-FINDING: property={prop} {e['key']}: {e['what']}")
        else:
            vio = dict(key=v.key, message=v.message, case=jsonx.enc(v.case))
            violations.append((body["sub"], vio, save_replay(prop, body["sub"], vio)))

    # 2. regression / replay tier: saved shrunk failures, run as plain calls
    regdir = os.path.join(ROOT, "regressions", prop)
    nreg = 0
    if os.path.isdir(regdir):
        for fn in sorted(os.listdir(regdir)):
            if not fn.endswith(".json"):
                continue
            path = os.path.join(regdir, fn)
            body, case = load_replay(path)
            if only and body["sub"] not in only:
                continue
            nreg += 1
            _PARENT_HISTORY.append(dict(sub=body["sub"], case=body["case"]))
            try:
                v = replay_case(mod, body["sub"], case)
            except Exception:
                print(f"HARNESS-ERROR property={prop} regression {fn}:\n{traceback.format_exc()}")
                return 2
            if v is not None and v.key not in known_keys:
                vio = dict(key=v.key, message=v.message, case=jsonx.enc(v.case))
                violations.append((body["sub"], vio, path))

    # 3. generated search, sharded over processes
    tasks = []
    for sub in mod.SUBS:
        if only and sub.name not in only:
            continue
        ns = sub.shards.get(tier, 16)
        for sh in range(ns):
            tasks.append((modname, sub.name, sh, ns, tier, seed, known_keys))
    results = []
    if tasks:
        if nproc <= 1:
            results = [_worker(t) for t in tasks]
        else:
            ctx = multiprocessing.get_context("fork")
            # one forked process per task: what one task leaves behind in the library never reaches another task
            with ctx.Pool(min(nproc, len(tasks)), maxtasksperchild=1) as pool:
                results = list(pool.imap_unordered(_worker, tasks, chunksize=1))
    results.sort(key=lambda r: (r["sub"], r["shard"]))

    errors = [r for r in results if r["error"]]
    per_sub = collections.OrderedDict()
    nt_all = set()
    evaluations = 0
    classes = collections.Counter()
    knowncount = collections.Counter()
    discards = collections.Counter()
    samples = []
    steps = 0
    for r in results:
        ps = per_sub.setdefault(r["sub"], dict(evaluations=0, distinct_nontrivial=set(), wall_s=0.0, shards=0))
        ps["evaluations"] += r["evaluations"]
        ps["distinct_nontrivial"] |= r["nt"]
        ps["wall_s"] = max(ps["wall_s"], round(r["wall"], 2))
        ps["shards"] += 1
        evaluations += r["evaluations"]
        nt_all |= {(r["sub"], d) for d in r["nt"]}
        classes.update({f"{r['sub']}:{k}": v for k, v in r["classes"].items()})
        knowncount.update(r["known"])
        discards.update({f"{r['sub']}:{k}": v for k, v in r["discards"].items()})
        steps += r["steps"]
        if r["shard"] == 0:
            for s in r["samples"][:2]:
                samples.append({"sub": r["sub"], "case": s})
        if r["violation"]:
            violations.append((r["sub"], r["violation"], None))
        for vio in r.get("collected", []):
            violations.append((r["sub"], vio, None))
    for ps in per_sub.values():
        ps["distinct_nontrivial"] = len(ps["distinct_nontrivial"])

    # de-duplicate violations by (sub, key): keep the smallest case
    best = {}
    for subname, vio, path in violations:
        k = (subname, vio["key"])
        size = len(json.dumps(vio["case"]))
        if k not in best or size < best[k][0]:
            best[k] = (size, subname, vio, path)
    final = []
    for _, subname, vio, path in best.values():
        if path is None:
            path = save_replay(prop, subname, {k: v for k, v in vio.items() if k not in ("first", "prior")})
            if os.environ.get("VERIF_CONFIRM_REPLAY", "1") == "1":
                path, note = confirm_replay(prop, subname, vio, path)
                if note:
                    notes.append(note)
                    print(f"NOTE property={prop} {note}")
        final.append((subname, vio, path))

    subs_by_name = {s.name: s for s in mod.SUBS}
    exhaustive_subs = [n for n in per_sub if subs_by_name[n].exhaustive]
    wall = time.time() - t0
    evidence = dict(
        property_id=prop,
        tier=tier,
        seed=seed,
        level=mod.LEVEL,
        coverage=dict(
            evaluations=evaluations + nreg,
            distinct_nontrivial=len(nt_all),
            rule=mod.RULE,
            samples=samples[:12] or [{"note": "no non-trivial sample recorded"}],
            exhaustive=False,
            exhaustive_subchecks=exhaustive_subs,
            per_subcheck=per_sub,
            classes=dict(sorted(classes.items())),
            discards=dict(discards),
            excluded_known_findings=dict(knowncount),
            regression_cases_replayed=nreg,
            stateful_steps=steps,
            repo=REPO,
            notes=notes,
        ),
        assumptions=list(getattr(mod, "ASSUMPTIONS", [])),
        wall_s=round(wall, 2),
        violations=len(final),
    )
    if not errors and os.environ.get("VERIF_NO_EVIDENCE") != "1":
        os.makedirs(os.path.join(ROOT, "evidence"), exist_ok=True)
        with open(os.path.join(ROOT, "evidence", f"{prop}.json"), "w") as f:
            json.dump(evidence, f, indent=1, sort_keys=True, default=str)
            f.write("\n")

    for line in known_lines:
        print(line)
    print(
        f"[{prop}] tier={tier} seed={seed} evaluations={evaluations + nreg} distinct_nontrivial={len(nt_all)} "
        f"violations={len(final)} known_hits={sum(knowncount.values())} wall={wall:.1f}s"
    )
    for name, ps in per_sub.items():
        print(f"    {name}: evaluations={ps['evaluations']} nontrivial={ps['distinct_nontrivial']} wall={ps['wall_s']}s")
    if errors:
        for r in errors:
            print(f"HARNESS-ERROR property={prop} sub={r['sub']} shard={r['shard']}:\n{r['error']}")
        return 2
    if final:
        for subname, vio, path in final:
            print(f"  violation in {subname}: {vio['key']}: {vio['message'][:600]}")
            print(f"VIOLATION property={prop} replay={path}")
        return 1
    return 0


def run_replay(prop: str, path: str) -> int:
    mod = importlib.import_module(f"harness.props.{prop.lower()}")
    body, case = load_replay(path)
    if os.environ.get("VERIF_NO_PRELUDE") != "1":
        from .failures import provoke

        provoke()
    for prev in body.get("sequence") or []:
        try:  # earlier cases of the run that found the violation: executed for their effect on the library only
            replay_case(mod, prev["sub"], jsonx.dec(prev["case"]))
        except Exception:
            pass
    v = replay_case(mod, body["sub"], case)
    if v is None:
        print(f"[{prop}] replay {path}: property held")
        return 0
    known_keys = {e["key"] for e in load_known(prop) if e.get("status") == "known"}
    if v.key in known_keys:
        print(f"KNOWN-FINDING: property={prop} {v.key}: {v.message[:300]}")
        return 0
    print(f"  violation: {v.key}: {v.message[:2000]}")
    print(f"VIOLATION property={prop} replay={path}")
    return 1
