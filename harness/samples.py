"""Access to the repository's sample beacons (tests/beacons/*.zip) - used only to anchor the reference models."""

import functools
import os
import zipfile

NAMES = {
    "beacon_x86": "4f571c0bc97c20eefc58fa3faf32148d.bin",
    "beacon_x64": "1897a6cdf17271807bd6ec7c60fffea3.bin",
    "beacon_custom_xorkey": "3fdf92571d10485b05904e35c635c655.bin",
    "dns_beacon": "a1573fe60c863ed40fffe54d377b393a.bin",
    "c2test_beacon": "37882262c9b5e971067fd989b26afe28.bin",
    "punycode_beacon": "5a197a8bb628a2555f5a86c51b85abd7.bin",
    "guardrails_beacon": "124552cf674b362e0c916ab79b9e7a56.bin",
}
SAMPLE_KEYS = [b"\x69", b"\x2e", b"\xaf", b"\xcc"]


def repo_root():
    return os.environ.get("VERIF_REPO", "/repo")


def tests_dir():
    # the samples always come from the real repository (scratch mutant copies symlink tests/)
    for base in (repo_root(), "/repo"):
        d = os.path.join(base, "tests", "beacons")
        if os.path.isdir(d):
            return os.path.join(base, "tests")
    raise FileNotFoundError("tests/beacons not found")


@functools.lru_cache(maxsize=None)
def sample(name: str) -> bytes:
    fn = NAMES[name]
    with zipfile.ZipFile(os.path.join(tests_dir(), "beacons", fn + ".zip")) as zf:
        return zf.read(fn, pwd=b"dissect.cobaltstrike")
