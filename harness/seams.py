"""Seams into the library that need no source hooks."""

import contextlib
import io as _real_io


class _IoProxy:
    """Stands in for the ``io`` module inside dissect.cobaltstrike.utils so that DEFAULT_BUFFER_SIZE can vary."""

    def __init__(self, bufsize):
        self.DEFAULT_BUFFER_SIZE = bufsize

    def __getattr__(self, name):
        return getattr(_real_io, name)


@contextlib.contextmanager
def buffer_size(n):
    """Run with iter_find_needle's read-buffer size set to ``n`` (None = unpatched 8192)."""
    from dissect.cobaltstrike import utils

    if n is None:
        yield
        return
    old = utils.io
    utils.io = _IoProxy(n)
    try:
        yield
    finally:
        utils.io = old
