"""Shared Hypothesis strategies (alphabets that matter for the syntax/wire formats, boundary-heavy integers)."""

from hypothesis import strategies as st

from .ref import programs as P

# bytes with syntax-relevant values over-represented
_SPECIAL = [0x00, 0xFF, 0x22, 0x27, 0x5C, 0x0A, 0x0D, 0x3B, 0x7B, 0x7D, 0x23, 0x20, 0x41, 0x78, 0x75, 0x3A, 0x3D, 0x26, 0x25, 0x2B, 0x2F]
byte_val = st.one_of(st.sampled_from(_SPECIAL), st.integers(0, 255))


# byte sequences that text-oriented code (strip / split / decode / printf-style formatting) treats specially; binary
# values may start or end with any of them
EDGES = [b"\r\n", b"\n", b"\r", b" ", b"\t", b"\x00", b"\x00\x00", b"\n\n", b"\r\n\r\n", b"==", b"=", b"\xff\xff\xff", b"%", b"%41", b"+", b"\x85", b"\xa0", b"\x1f", b"\x0b", b"\x0c", b"\\", b'"', b"'", b"/", b"//", b"/id/", b"?", b"#", b"&", b";"]


def _with_edges(t):
    blob, pre, suf, min_size, max_size = t
    if pre is not None:
        blob = pre + blob[len(pre) :]
    if suf is not None:
        blob = blob[: max(0, len(blob) - len(suf))] + suf
    blob = blob[:max_size]
    return blob if len(blob) >= min_size else blob + b"\n" * (min_size - len(blob))


# fragments that look like escapes / quoting to code that renders bytes as text and back (repr(), literal escapes,
# percent-encoding): they only matter as adjacent pairs, which independent random bytes almost never form
FRAGMENTS = [b"\\'", b'\\"', b"\\\\", b"\\\\'", b"'\"", b"\"'", b"\\x41", b"\\u0041", b"\\n", b"\\", b"'", b'"', b"%41", b"%%", b"\r\n", b"\x00", b"\xff", b"\x80", b"A", b"z", b" ", b"{", b"}", b";", b"#", b"$", b"\\x", b"\\u00"]


def _join_fragments(t):
    parts, min_size, max_size = t
    blob = b"".join(parts)[:max_size]
    return blob if len(blob) >= min_size else blob + b"'" * (min_size - len(blob))


def binary(min_size=0, max_size=24):
    _edge = st.one_of(st.none(), st.sampled_from(EDGES))
    return st.one_of(
        st.binary(min_size=min_size, max_size=max_size),
        st.lists(byte_val, min_size=min_size, max_size=max_size).map(bytes),
        st.tuples(st.binary(min_size=min_size, max_size=max_size), _edge, _edge, st.just(min_size), st.just(max_size)).map(_with_edges),
        st.tuples(st.lists(st.sampled_from(FRAGMENTS), max_size=6), st.just(min_size), st.just(max_size)).map(_join_fragments),
    )


arg_bytes = st.one_of(st.just(b""), binary(0, 6), binary(0, 40))
u16 = st.one_of(st.sampled_from([0, 1, 2, 0x7F, 0x80, 0xFF, 0x100, 0x7FFF, 0x8000, 0xFFFF]), st.integers(0, 0xFFFF))
u32 = st.one_of(
    st.sampled_from([0, 1, 0xFF, 0x100, 0xFFFF, 0x10000, 0x7FFFFFFF, 0x80000000, 0xFFFFFFFF]), st.integers(0, 0xFFFFFFFF)
)

printable = "".join(chr(c) for c in range(0x20, 0x7F))
token_chars = "ABCDEFGHIJKLMNOPQRSTUVWXYZabcdefghijklmnopqrstuvwxyz0123456789"

# ------------------------------------------------------------------------------------------ transform programs (C03)
_ENABLE = list(P.ENABLE_STEPS)
_ARG = list(P.ARGUMENT_STEPS)


def any_transform_step():
    return st.one_of(
        st.sampled_from(_ENABLE).map(lambda n: (n, True)),
        st.tuples(st.sampled_from(_ARG), arg_bytes),
    )


def any_transform_program(build0="metadata"):
    """1-3 BUILD blocks with any ordering / repetition of the other opcodes (decode-only domain of C03)."""
    block = st.tuples(st.sampled_from([build0, "output"]), st.lists(any_transform_step(), max_size=6))

    def flat(blocks):
        out = []
        for kind, steps in blocks:
            out.append(("BUILD", kind))
            out.extend(steps)
        return out

    return st.lists(block, min_size=1, max_size=3).map(flat)


def any_recover_program():
    step = st.one_of(
        st.sampled_from(["base64", "print", "netbios", "netbiosu", "base64url", "mask"]).map(lambda n: (n, True)),
        st.tuples(st.sampled_from(["append", "prepend"]), u32),
    )
    return st.lists(step, max_size=8)


_name_chars = "abcdefghijklmnopqrstuvwxyzABCDEFGHIJKLMNOPQRSTUVWXYZ0123456789._-"
_modname = st.text(alphabet=_name_chars, min_size=1, max_size=12).map(lambda s: s.encode())


def execute_list():
    simple = st.sampled_from(["CreateThread", "SetThreadContext", "CreateRemoteThread", "RtlCreateUserThread", "NtQueueApcThread", "NtQueueApcThread-s"])
    withoff = st.tuples(st.sampled_from(["CreateThread_", "CreateRemoteThread_"]), _modname, _modname, u16)
    return st.lists(st.one_of(simple, withoff), max_size=6)


def section_table():
    pair = st.tuples(u32, u32).filter(lambda p: p != (0, 0))
    return st.lists(pair, max_size=16)


gate_flags = st.one_of(
    st.lists(st.booleans(), min_size=23, max_size=23),
    st.sets(st.integers(0, 22), max_size=3).map(lambda s: [i in s for i in range(23)]),
    st.sets(st.integers(0, 22), max_size=3).map(lambda s: [i not in s for i in range(23)]),
    st.sampled_from([[True] * 23, [False] * 23, [i < 2 for i in range(23)], [2 <= i < 22 for i in range(23)], [i == 22 for i in range(23)]]),
)


# ------------------------------------------------------------------------------------------ valid transform programs (C04, C07, C13, C14)
_token = st.text(alphabet=token_chars + "-_", min_size=1, max_size=10).map(lambda s: s.encode())
# affix text for placements that travel as header / parameter / URI text: unreserved characters plus the sub-delimiters
# and ":" "@" that RFC 3986 allows unescaped in a path segment (";" "=" "," matter to URL / header parsers)
_printable_arg = st.text(alphabet=token_chars + "-_.~" + ";=,:@!*$()", max_size=12).map(lambda s: s.encode())


@st.composite
def valid_client_program(draw, kinds=("metadata",), printable=False, allow_uri_append=True, max_encoders=6):
    """A program the client can execute and the server can invert: per kind one BUILD block with 0..max encoders and
    exactly one termination (distinct targets), plus 0-3 static decorations.  With ``printable`` every header /
    parameter / URI placement carries printable bytes (last non-affix encoder is base64/base64url/netbios/netbiosu and
    affixes are printable)."""
    steps = []
    used_headers, used_params = set(), set()
    used_print = used_uri = False
    for kind in kinds:
        options = []
        if not used_print:
            options.append("PRINT")
        if allow_uri_append and not used_uri:
            options.append("URI_APPEND")
        options += ["HEADER", "PARAMETER"]
        term = draw(st.sampled_from(options))
        needs_printable = printable and term != "PRINT"
        n = draw(st.integers(0, max_encoders))
        encs = []
        for _ in range(n):
            name = draw(st.sampled_from(["APPEND", "PREPEND", "BASE64", "BASE64URL", "NETBIOS", "NETBIOSU", "MASK"]))
            if name in ("APPEND", "PREPEND"):
                encs.append((name, draw(_printable_arg if needs_printable else arg_bytes)))
            else:
                encs.append((name, True))
        if needs_printable:
            # the last non-affix encoder must yield printable text
            last = [i for i, (nm, _) in enumerate(encs) if nm not in ("APPEND", "PREPEND")]
            text = draw(st.sampled_from(["BASE64", "BASE64URL", "NETBIOS", "NETBIOSU"]))
            if not last:
                encs.insert(0, (text, True))
            elif encs[last[-1]][0] == "MASK":
                encs.insert(last[-1] + 1, (text, True))
            if term == "URI_APPEND":
                # '/' '+' '=' of plain base64 are legal in a path but keep the URI unambiguous: use url-safe encoders
                encs = [(("BASE64URL", True) if nm == "BASE64" else (nm, a)) for nm, a in encs]
        steps.append(("BUILD", kind))
        steps.extend(encs)
        if term == "PRINT":
            used_print = True
            steps.append(("PRINT", True))
        elif term == "URI_APPEND":
            used_uri = True
            steps.append(("URI_APPEND", True))
        elif term == "HEADER":
            name = draw(_token.filter(lambda t: t.lower() not in used_headers))
            used_headers.add(name.lower())
            steps.append(("HEADER", name))
        else:
            name = draw(_token.filter(lambda t: t not in used_params))
            used_params.add(name)
            steps.append(("PARAMETER", name))
    for _ in range(draw(st.integers(0, 3))):
        k = draw(st.sampled_from(["_HEADER", "_PARAMETER", "_HOSTHEADER"]))
        if k == "_PARAMETER":
            name = draw(_token.filter(lambda t: t not in used_params))
            used_params.add(name)
            # values may themselves contain the separator (only the first "=" / ": " splits name from value)
            val = draw(st.one_of(_printable_arg, st.sampled_from([b"a=b", b"=", b"k=v=w", b"=="])) if printable else st.one_of(arg_bytes, st.sampled_from([b"a=b", b"=", b"k=v=w", b"x: y"])))
            steps.append((k, name + b"=" + val))
        else:
            name = b"Host" if k == "_HOSTHEADER" else draw(_token.filter(lambda t: t.lower() not in used_headers and t.lower() != b"host"))
            if name.lower() in used_headers:
                continue
            used_headers.add(name.lower())
            val = draw(st.one_of(_printable_arg.filter(lambda v: v.strip() == v), st.sampled_from([b"a: b", b"x: y: z", b"k=v"])) if printable else st.one_of(arg_bytes, st.sampled_from([b"a: b", b": ", b"x: y: z", b"k=v"])))
            steps.append((k, name + b": " + val))
    return steps


@st.composite
def valid_recover_program(draw, max_steps=6):
    """Server output program as stored in setting 11 (the order in which the beacon undoes it): print first."""
    steps = [("print", True)]
    for _ in range(draw(st.integers(0, max_steps))):
        name = draw(st.sampled_from(["append", "prepend", "base64", "base64url", "netbios", "netbiosu", "mask"]))
        if name in ("append", "prepend"):
            steps.append((name, draw(st.one_of(st.just(0), st.integers(0, 8), st.integers(0, 64)))))
        else:
            steps.append((name, True))
    return steps


# ------------------------------------------------------------------------------------------ HTTP beacon configurations (C07, C13, C14)
RESERVED_HEADERS = {b"host", b"user-agent", b"content-length", b"connection", b"accept", b"accept-encoding", b"transfer-encoding", b"content-type", b"expect", b"te", b"upgrade"}


def _rename_reserved(steps):
    out = []
    for name, arg in steps:
        if name == "HEADER" and arg.lower() in RESERVED_HEADERS:
            arg = b"X-" + arg
        elif name == "_HEADER":
            k, sep, v = arg.partition(b": ")
            if k.lower() in RESERVED_HEADERS:
                arg = b"X-" + k + sep + v
        out.append((name, arg))
    return out


@st.composite
def http_beacon_config(draw, printable=True):
    """A well-formed HTTP beacon configuration (as a plain dict of reference-level values)."""
    seg = st.text(alphabet=token_chars, min_size=1, max_size=6)
    n_uris = draw(st.integers(1, 3))
    uris = []
    tries = 0
    while len(uris) < n_uris + 1 and tries < 50:
        tries += 1
        u = "/" + draw(seg) + draw(st.sampled_from(["", "", ".php", ".js", "/x", "", ".php", ";jsessionid=", ";v=1", "/a;b/c", "@x", ":8", "!", "$x", "*", "(1)", "=", "/x=1;y=2"]))
        if all(not u.startswith(o) and not o.startswith(u) for o in uris):
            uris.append(u)
    if len(uris) < 2:
        uris = ["/aa.php", "/bb"]
    submit_uri, get_uris = uris[0], uris[1:]
    # nested GET URIs (one a proper prefix of another, separated by '/'): still unambiguous, because placed data never
    # starts with '/', but the decoder has to pick the longest configured prefix
    if draw(st.booleans()) and len(get_uris) < 3:
        base = draw(st.sampled_from(get_uris))
        nested = base + "/" + draw(seg)
        if all(not submit_uri.startswith(nested) and not nested.startswith(submit_uri) for _ in (0,)):
            get_uris = get_uris + [nested] if draw(st.booleans()) else [nested] + get_uris
    verb_get = draw(st.sampled_from(["GET", "GET", "POST", "PUT", "XGET"]))
    verb_post = draw(st.sampled_from(["POST", "POST", "GET", "PUT", "XPOST"]))
    get_steps = _rename_reserved(draw(valid_client_program(kinds=("metadata",), printable=printable)))
    post_steps = _rename_reserved(draw(valid_client_program(kinds=draw(st.sampled_from([("id", "output"), ("output", "id")])), printable=printable)))
    recover_steps = draw(valid_recover_program())
    # data placed with uri-append may itself contain the text of the configured URI again (never at its start, where it
    # would make the routing ambiguous): only the leading base URI is stripped before decoding
    if draw(st.integers(0, 3)) == 0:
        def echo(steps, text):
            if any(n == "URI_APPEND" for n, _ in steps):
                at = next(i for i, (n, _) in enumerate(steps) if n == "URI_APPEND")
                return steps[:at] + [("APPEND", text)] + steps[at:]
            return steps

        get_steps = echo(get_steps, "".join(get_uris).encode())
        post_steps = echo(post_steps, submit_uri.encode())
    domains = draw(st.lists(st.sampled_from(["127.0.0.1", "localhost", "c2.example.com"]), min_size=1, max_size=2, unique=True))
    pairs = [(domains[i % len(domains)], u) for i, u in enumerate(get_uris)]
    return {
        "get_steps": get_steps,
        "post_steps": post_steps,
        "recover_steps": recover_steps,
        "get_uris": get_uris,
        "submit_uri": submit_uri,
        "verb_get": verb_get,
        "verb_post": verb_post,
        "pairs": pairs,
        "port": draw(st.sampled_from([80, 443, 8080])),
        "proto": draw(st.sampled_from([0, 8])),
        "sleeptime": draw(st.sampled_from([0, 1000, 60000])),
        "jitter": draw(st.integers(0, 50)),
        "useragent": draw(st.sampled_from(["Mozilla/5.0 (Windows NT 10.0; Win64; x64)", "curl/8.0", "Mozilla/4.0 (compatible; MSIE 8.0)"])),
        "key": "rsa_1024_a",
        # listener host header (domain fronting): mostly absent
        "host_header": draw(st.sampled_from(["", "", "Host: fronted.example.org", "Host: cdn.example.net:8443"])),
    }
