"""Shared Hypothesis strategies (alphabets that matter for the syntax/wire formats, boundary-heavy integers)."""

from hypothesis import strategies as st

from .ref import programs as P

# bytes with syntax-relevant values over-represented
_SPECIAL = [0x00, 0xFF, 0x22, 0x27, 0x5C, 0x0A, 0x0D, 0x3B, 0x7B, 0x7D, 0x23, 0x20, 0x41, 0x78, 0x75, 0x3A, 0x3D, 0x26, 0x25, 0x2B, 0x2F]
byte_val = st.one_of(st.sampled_from(_SPECIAL), st.integers(0, 255))


def binary(min_size=0, max_size=24):
    return st.one_of(
        st.binary(min_size=min_size, max_size=max_size),
        st.lists(byte_val, min_size=min_size, max_size=max_size).map(bytes),
    )


arg_bytes = st.one_of(st.just(b""), binary(0, 6), binary(0, 40))
u16 = st.one_of(st.sampled_from([0, 1, 2, 0x7F, 0x80, 0xFF, 0x100, 0x7FFF, 0x8000, 0xFFFF]), st.integers(0, 0xFFFF))
u32 = st.one_of(
    st.sampled_from([0, 1, 0xFF, 0x100, 0xFFFF, 0x10000, 0x7FFFFFFF, 0x80000000, 0xFFFFFFFF]), st.integers(0, 0xFFFFFFFF)
)

printable = "".join(chr(c) for c in range(0x20, 0x7F))
token_chars = "ABCDEFGHIJKLMNOPQRSTUVWXYZabcdefghijklmnopqrstuvwxyz0123456789"

# ------------------------------------------------------------------------------------------ transform programs (C03)
_ENABLE = list(P.ENABLE_STEPS)
_ARG = list(P.ARGUMENT_STEPS)


def any_transform_step():
    return st.one_of(
        st.sampled_from(_ENABLE).map(lambda n: (n, True)),
        st.tuples(st.sampled_from(_ARG), arg_bytes),
    )


def any_transform_program(build0="metadata"):
    """1-3 BUILD blocks with any ordering / repetition of the other opcodes (decode-only domain of C03)."""
    block = st.tuples(st.sampled_from([build0, "output"]), st.lists(any_transform_step(), max_size=6))

    def flat(blocks):
        out = []
        for kind, steps in blocks:
            out.append(("BUILD", kind))
            out.extend(steps)
        return out

    return st.lists(block, min_size=1, max_size=3).map(flat)


def any_recover_program():
    step = st.one_of(
        st.sampled_from(["base64", "print", "netbios", "netbiosu", "base64url", "mask"]).map(lambda n: (n, True)),
        st.tuples(st.sampled_from(["append", "prepend"]), u32),
    )
    return st.lists(step, max_size=8)


_name_chars = "abcdefghijklmnopqrstuvwxyzABCDEFGHIJKLMNOPQRSTUVWXYZ0123456789._-"
_modname = st.text(alphabet=_name_chars, min_size=1, max_size=12).map(lambda s: s.encode())


def execute_list():
    simple = st.sampled_from(["CreateThread", "SetThreadContext", "CreateRemoteThread", "RtlCreateUserThread", "NtQueueApcThread", "NtQueueApcThread-s"])
    withoff = st.tuples(st.sampled_from(["CreateThread_", "CreateRemoteThread_"]), _modname, _modname, u16)
    return st.lists(st.one_of(simple, withoff), max_size=6)


def section_table():
    pair = st.tuples(u32, u32).filter(lambda p: p != (0, 0))
    return st.lists(pair, max_size=16)


gate_flags = st.one_of(
    st.lists(st.booleans(), min_size=23, max_size=23),
    st.sets(st.integers(0, 22), max_size=3).map(lambda s: [i in s for i in range(23)]),
    st.sets(st.integers(0, 22), max_size=3).map(lambda s: [i not in s for i in range(23)]),
    st.sampled_from([[True] * 23, [False] * 23, [i < 2 for i in range(23)], [2 <= i < 22 for i in range(23)], [i == 22 for i in range(23)]]),
)
