#!/venv/bin/python
"""Run the checks against a behaviour-preserving change produced by a sub-agent: every check must stay quiet.

  tools/benign_eval.py C05 /tmp/wt_C05 --name short_name [--props C04,C05]     (default: all 20 checks)

Copies <wt>/seeded/{patch.diff,demo.py,meta.json} to /verif/benign/<ID>_<name>/, confirms that the agent's demo passes
with and without the change, then runs the quick checks with VERIF_REPO=<wt> (never touching /repo)."""
import json, os, shutil, subprocess, sys, time

ROOT = os.path.dirname(os.path.dirname(os.path.abspath(__file__)))
ALL = ["C%02d" % i for i in range(1, 21)]


def sh(cmd, **kw):
    return subprocess.run(cmd, shell=True, capture_output=True, text=True, **kw)


def main():
    a = sys.argv[1:]
    pid, wt = a[0], a[1]
    name = a[a.index("--name") + 1] if "--name" in a else "1"
    props = a[a.index("--props") + 1].split(",") if "--props" in a else ALL
    dest = os.path.join(ROOT, os.environ.get("BENIGN_DIR", "benign"), f"{pid}_{name}")
    os.makedirs(dest, exist_ok=True)
    for f in ("patch.diff", "demo.py", "meta.json"):
        shutil.copy(os.path.join(wt, "seeded", f), os.path.join(dest, f))
    meta = json.load(open(os.path.join(dest, "meta.json")))
    env = f"PYTHONPATH={wt} PYTHONHASHSEED=0"
    if not sh(f"git -C {wt} diff --stat -- dissect | tail -1").stdout.strip():
        assert sh(f"git -C {wt} apply seeded/patch.diff").returncode == 0
    r1 = sh(f"cd {wt}/seeded && {env} /venv/bin/python demo.py")
    assert sh(f"git -C {wt} apply -R seeded/patch.diff").returncode == 0
    r0 = sh(f"cd {wt}/seeded && {env} /venv/bin/python demo.py")
    assert sh(f"git -C {wt} apply seeded/patch.diff").returncode == 0
    checks = {}
    for p in props:
        t0 = time.time()
        r = sh(f"cd {ROOT} && VERIF_NO_EVIDENCE=1 VERIF_REPO={wt} ./check {p} --tier quick")
        lines = [l[:500] for l in r.stdout.splitlines() if l.startswith(("VIOLATION", "HARNESS", "NOTE")) or l.strip().startswith("violation in")]
        checks[p] = dict(exit=r.returncode, wall=round(time.time() - t0, 1), lines=lines[:6])
    meta["demo_with_change"] = r1.returncode
    meta["demo_without_change"] = r0.returncode
    meta["our_checks"] = checks
    json.dump(meta, open(os.path.join(dest, "meta.json"), "w"), indent=1)
    loud = {p: c for p, c in checks.items() if c["exit"] != 0}
    print(f"{pid}_{name}: demo with={r1.returncode} without={r0.returncode}; checks run={len(checks)} quiet={len(checks) - len(loud)}")
    for p, c in loud.items():
        print(f"   LOUD {p}: exit={c['exit']} {c['lines'][:3]}")
    return 1 if loud else 0


if __name__ == "__main__":
    sys.exit(main())
