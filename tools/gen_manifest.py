#!/usr/bin/env python3-vt
"""Regenerates MANIFEST.json from the table below + which harness/props/cNN.py modules exist. Validates against the schema."""
import json, os, sys
ROOT = os.path.dirname(os.path.dirname(os.path.abspath(__file__)))
sys.path.insert(0, ROOT)

CHECKS = {
 "C01": dict(cat="exploration", tech="property-based differential testing (Hypothesis) against a reference extractor over generated payload layouts, buffer sizes and key modes + deterministic enumeration of every header alignment around read boundaries",
   text="Generated payloads (raw / PE / XorEncoded, any key, header straddling every read-boundary alignment, decoys) are extracted by the library and by an independent reference on the known plaintext; block, settings, key and xorencoded flag must agree, or ValueError when no tried key matches. Sampling, not proof.",
   note="Trusts the reference TLV/XorEncoded/PE builders in harness/ref (anchored to the repository's sample beacons). Raw containers avoid accidental XorEncoded markers by construction."),
 "C02": dict(cat="exploration", tech="property-based differential testing (Hypothesis) against an independent TLV decoder + view-agreement invariants; coverage-guided atheris differential campaigns in the thorough tier",
   text="Arbitrary TLV sequences (unknown/aliased/duplicate indices, zero and maximal lengths, trailing bytes, UA edge) are decoded by the library and by a 25-line reference decoder; all four views and settings_map variants are compared for order and values.",
   note="Trusts harness/ref/tlv.py and the frozen name table in harness/ref/naming.py."),
 "C03": dict(cat="exploration", tech="grammar-based program generation + independent encoders (round trip through the library decoder); exhaustive enumeration of the 2^23 BeaconGate vectors in the thorough tier",
   text="Transform/recover programs, execute lists, section tables, pivot frames, strings, IPv4, domain lists and BeaconGate vectors are encoded by reference encoders written from the wire formats and must decode to exactly the generated steps.",
   note="'As Cobalt Strike defines' is relative to reference encoders pinned to the sample beacons' raw setting bytes."),
 "C04": dict(cat="exploration", tech="property-based round-trip + two-way differential testing against an independent Malleable-C2 transform encoder/decoder",
   text="Generated valid programs and payloads: recover(transform(d)) == d, reference decodes library messages, library decodes reference messages, and mask-free outputs are byte-identical.",
   note="Trusts harness/ref/transform.py (own base64/netbios/mask code) anchored to the captured messages in tests/test_c2.py."),
 "C05": dict(cat="fault_enumeration", tech="property-based generation of packets + exhaustive per-case fault enumeration (every single-bit flip and truncation of ciphertext/signature/HMAC key) against a reference CBC/HMAC",
   text="Every generated packet is compared with a reference AES-CBC(pad 'A')/HMAC-SHA256[:16]; then every single-bit flip and every proper prefix of ciphertext and signature, every bit flip of the HMAC key and a missing key must raise ValueError before the AES layer is reached.",
   note="Reference CBC is built from pycryptodome's AES-ECB block primitive + stdlib hmac; single faults only."),
 "C06": dict(cat="exploration", tech="property-based round-trip testing over full-width field values and info lengths up to the PKCS#1 limit, plus negative blobs",
   text="decrypt(encrypt(m)) == m for boundary and random field values at RSA-1024/2048; undecryptable / wrong-magic blobs must raise ValueError; key derivation equals the SHA-256 split.",
   note="Fixed RSA key fixtures; pycryptodome is trusted for RSA itself."),
 "C07": dict(cat="exploration", tech="model-based stateful testing (Hypothesis RuleBasedStateMachine): library beacon client and reference beacon vs reference team-server peer over a loopback socket, decoded by fresh and by persistent C2Http instances per key variant",
   text="Generated configurations and histories of check-ins, tasks and callbacks; after every step fresh decoders for each key variant must yield exactly the model's packet list; unrelated requests must raise ValueError.",
   note="Peer and configuration encoder are reference code; uses 127.0.0.1 sockets and httpx from the repo's environment."),
 "C08": dict(cat="fault_enumeration", tech="structured fault injection (truncation/corruption/crafted fields on reference-built payloads and sample windows), systematic truncation and field-corruption sweeps, random bytes via Hypothesis, all in collect mode; coverage-guided atheris campaigns in the thorough tier; CPU-time watchdog for hangs",
   text="Every entry point must return or raise ValueError; any other exception is bucketed by (type, innermost library frame); a CPU-time watchdog turns non-termination into a finding.",
   note="Termination is semi-decidable: watchdog of 20 s CPU for inputs whose analytic cost bound is < 2 s."),
 "C09": dict(cat="exploration", tech="model-based stateful testing (RuleBasedStateMachine) of XorEncodedFile against io.BytesIO over the plaintext; generated stages for detection",
   text="Histories of read/seek/tell on the decoding view are compared step by step with BytesIO(plaintext); detection must find the true nonce offset of generated stages and reject non-encoded inputs.",
   note="seek() return value is not checked; ambiguous stages (extra markers) are discarded and counted."),
 "C10": dict(cat="exploration", tech="grammar-based sentence generation (frozen reference language + live grammar walk) with token-level round-trip oracle using an independent tokenizer",
   text="Every production is emitted at least once, then random profiles; tokens(source) == tokens(as_text()) and the re-parsed tree is identical.",
   note="Reference language table frozen in harness/ref/profile_lang.py, anchored to tests/profiles and test fragments."),
 "C11": dict(cat="exploration", tech="model-based testing: generated profiles with a generator-computed model dictionary, builder-API twin, and a stateful machine interleaving modification and as_dict()",
   text="as_dict() must equal the model (keys, order, nothing else); builder twins must be indistinguishable; the view must track modifications.",
   note="Expected shapes are those asserted in tests/README; undocumented shapes only via metamorphic/twin checks."),
 "C12": dict(cat="exploration", tech="exhaustive enumeration of short byte strings / syntax alphabet + property-based round trip through value_to_string, the lexer and the parser",
   text="All byte strings of length <= 2 and all strings <= 4 over the syntax alphabet round-trip through literal conversion, are lexed as one STRING token and survive embedding in statements; escapes decode to reference values.",
   note="Exhaustive only for the stated short domains; longer strings sampled."),
 "C13": dict(cat="exploration", tech="property-based generation of well-formed configurations (reference encoders) with round trip config -> profile text -> parse -> dictionary compared to the generated values",
   text="Generated configurations must always yield parsable profile text whose dictionary states the generated values byte-exactly.",
   note="Text values compared after literal decoding or raw, whichever reproduces the original."),
 "C14": dict(cat="exploration", tech="model-based stateful testing (RuleBasedStateMachine): deep-snapshot invariant after every use + comparison with a fresh twin configuration",
   text="Histories of view reads, decoder/client/profile construction and transform/recover calls must leave a deep snapshot of the configuration unchanged and give the same results as on a fresh configuration; mappings reject assignment.",
   note="Snapshot covers the four views, config_block and settings_tuple."),
 "C15": dict(cat="exploration", tech="exhaustive enumeration over small alphabets (haystack x needle x buffer size x start x limit) against a naive bytes.find oracle + property-based planted needles at buffer boundaries",
   text="iter_find_needle must return exactly the naive occurrence list; with a limit, soundness and completeness-before-limit; ArtifactKit scanner vs a reference scan.",
   note="Buffer size varied by swapping utils.io for a proxy exposing DEFAULT_BUFFER_SIZE."),
 "C16": dict(cat="exploration", tech="property-based generation of HTTP messages from parts via an independent wire serialiser; parsed parts must equal generated parts (also on a second parse after the first result was modified); atheris campaigns (parts + raw wire bytes) in the thorough tier",
   text="Generated methods, paths, parameter maps, header maps and binary bodies are serialised by a reference serialiser and must parse back to exactly the parts; malformed start lines must raise ValueError.",
   note="Domain as stated in the property (ASCII paths, non-empty parameter values, 'Key: value' headers)."),
 "C17": dict(cat="exploration", tech="property-based generation with an independent Guardrails protector (anchored to the sample) + fault injection on key/checksum/config bytes + universal checksum invariant",
   text="Protected payloads for every key length 2-256 and guard option subset must be recovered exactly; corrupted ones must not yield a configuration; any reported configuration must satisfy the checksum equation.",
   note="Domain restricted to CS-shaped configurations whose most frequent aligned block is the NUL block (otherwise no decoder can recover the key)."),
 "C18": dict(cat="exploration", tech="property-based generation of PE stages with an independent PE builder; exhaustive checks of version tables (monotonicity, CSV rows, parse agreement)",
   text="find_* helpers and BeaconConfig fields must equal the builder's values; version precedence/fallback, tuple/date parsing and table monotonicity are checked for every table key and neighbours.",
   note="Trusts harness/ref/pebuild.py (field offsets checked against the sample headers)."),
 "C19": dict(cat="exploration", tech="model-based stateful testing of the handler registry and real beacon loop body + property-based identity/metadata/sleep checks",
   text="Any requested id gives ValueError or an even id in range with deterministic keys; metadata fits RSA-1024; sleep within the jitter band; each task dispatched to each registered handler exactly once.",
   note="Loop driven through an overriding subclass; time.sleep stubbed."),
 "C20": dict(cat="exploration", tech="property-based testing against reference implementations + exhaustive enumeration of short stager URIs",
   text="xor/netbios/pack/unpack compared with independent references and round-trip laws; URI classifiers compared with a reference checksum8 exhaustively over '/'+[A-Za-z0-9]{<=3} (quick) / {4} (thorough); generator and staged-beacon gate checked.",
   note="URIs without whitespace/control characters; NetBIOS offsets 0..240."),
}

def main():
    props = [json.loads(l) for l in open(os.path.join(ROOT, "properties.jsonl"))]
    checks, na = [], []
    for p in props:
        pid = p["id"]
        if os.path.exists(os.path.join(ROOT, "harness", "props", pid.lower() + ".py")):
            c = CHECKS[pid]
            checks.append(dict(
                property_id=pid,
                quick_cmd=f"./check {pid} --tier quick",
                thorough_cmd=f"./check {pid} --tier thorough",
                evidence_file=f"evidence/{pid}.json",
                replay_cmd_template=f"./check {pid} --replay {{path}}",
                engine="harness",
                level_claimed=dict(category=c["cat"], text=c["text"], design_ref=f"DESIGN.md section 4, {pid}"),
                level_note=c["note"],
                technique=c["tech"],
            ))
        else:
            na.append(dict(property_id=pid, reason="check not built yet in this round (planned, see DESIGN.md section 4); not claimed until it exists"))
    hooks_commits = []
    m = dict(
        version=1,
        setup_cmd="sh tools/setup.sh",
        hooks=dict(guard="FOX_IT_DISSECT_COBALTSTRIKE_VERIF", enable="none needed: checks import /repo's working tree directly (VERIF_REPO overrides the path); no source hooks exist",
                   baseline_off_cmd="cd /repo && /venv/bin/python -m pytest -q -p no:cacheprovider --timeout=900", source_commits=hooks_commits, add_only=True),
        engines=[dict(name="harness", path="harness/", serves_properties=[c["property_id"] for c in checks],
                      kind_free_text="Hypothesis 6.168 property-based / stateful testing, exhaustive small-domain enumeration and atheris fuzz targets, sharded over 16 processes; independent reference models in harness/ref")],
        checks=checks,
        notes="All checks: exit 0 held, exit 1 + VIOLATION line, exit 2 harness error. KNOWN-FINDING lines come from known_findings.json.",
        not_applicable=na,
    )
    open(os.path.join(ROOT, "MANIFEST.json"), "w").write(json.dumps(m, indent=1) + "\n")
    import jsonschema
    jsonschema.validate(m, json.load(open("/root/.vp/MANIFEST.schema.json")))
    print("MANIFEST.json written:", len(checks), "checks,", len(na), "not applicable")

main()
