#!/usr/bin/env python3
"""Writes the prompts handed to fresh sub-agents that seed property-breaking changes (one per property).

  tools/gen_seed_prompts.py <round-tag> <outdir> [flavour text file]

A prompt holds only: the property text from properties.jsonl, how to run the repository's tests in the agent's own
worktree (/tmp/wt_<ID>), one-line summaries of the changes already explored (from seeded/*/meta.json, so that the next
agent picks a different mechanism), and the deliverables. Nothing about how /verif checks the property."""
import glob, json, os, sys

ROOT = os.path.dirname(os.path.dirname(os.path.abspath(__file__)))
TEMPLATE = open(os.path.join(ROOT, "tools", "seed_prompt_template.txt")).read()


def main():
    tag, outdir = sys.argv[1], sys.argv[2]
    flavour = open(sys.argv[3]).read().strip() if len(sys.argv) > 3 else ""
    os.makedirs(outdir, exist_ok=True)
    for line in open(os.path.join(ROOT, "properties.jsonl")):
        p = json.loads(line)
        pid = p["id"]
        explored = []
        for d in sorted(glob.glob(os.path.join(ROOT, "seeded", pid + "_*"))):
            try:
                m = json.load(open(os.path.join(d, "meta.json")))
                explored.append("- " + " ".join(str(m.get("summary", "")).split())[:260])
            except Exception:
                pass
        anchors = "; ".join(f"{m['name']} @ {m['where']}" for m in p["anchors"]["mechanism"])
        text = TEMPLATE.format(ID=pid, TITLE=p["title"], STATEMENT=p["statement"], QUANT=p["quantifier"]["text"], ANCHORS=anchors, EXPLORED="\n".join(explored) or "- (nothing yet)", FLAVOUR=flavour)
        open(os.path.join(outdir, f"{pid}_{tag}.txt"), "w").write(text)
    print("prompts written to", outdir)


if __name__ == "__main__":
    main()
