#!/venv/bin/python
"""Sensitivity helper: apply a textual mutation (or a saved patch) to a scratch copy of the repo and run a check.

  tools/mut.py C20 name utils.py 'OLD' 'NEW' [--tier quick] [--save]     # make + run (+ save as mutants/C20/name.patch)
  tools/mut.py C20 --all                                                  # run every saved mutants/C20/*.patch
Expected result for a sensitive check: exit 1.  The scratch copy lives in /dev/shm and is removed afterwards.
"""
import os, shutil, subprocess, sys, tempfile, glob

ROOT = os.path.dirname(os.path.dirname(os.path.abspath(__file__)))
REPO = os.environ.get("VERIF_REPO_SRC", "/repo")


def scratch():
    d = tempfile.mkdtemp(prefix="mut_", dir="/dev/shm")
    shutil.copytree(os.path.join(REPO, "dissect"), os.path.join(d, "dissect"), ignore=shutil.ignore_patterns("__pycache__"))
    for extra in ("docs", "tests"):
        # only the small things some checks read (CSV table, sample profile)
        pass
    os.makedirs(os.path.join(d, "docs"), exist_ok=True)
    for f in glob.glob(os.path.join(REPO, "docs", "*.csv")):
        shutil.copy(f, os.path.join(d, "docs"))
    os.symlink(os.path.join(REPO, "tests"), os.path.join(d, "tests"))
    return d


def run(prop, d, tier, extra):
    env = dict(os.environ, VERIF_REPO=d, VERIF_NO_EVIDENCE="1")  # never overwrite the evidence of the unchanged tree
    p = subprocess.run([os.path.join(ROOT, "check"), prop, "--tier", tier] + extra, env=env, capture_output=True, text=True)
    return p.returncode, p.stdout + p.stderr


def main():
    a = sys.argv[1:]
    tier = "quick"
    if "--tier" in a:
        i = a.index("--tier"); tier = a[i + 1]; del a[i:i + 2]
    save = "--save" in a
    if save: a.remove("--save")
    extra = []
    if "--only" in a:
        i = a.index("--only"); extra = ["--only", a[i + 1]]; del a[i:i + 2]
    seeds = ["1"]
    if "--seeds" in a:
        i = a.index("--seeds"); seeds = a[i + 1].split(","); del a[i:i + 2]
    prop = a[0]
    if a[1] == "--all":
        rc_all = 0
        for patch in sorted(glob.glob(os.path.join(ROOT, "mutants", prop, "*.patch"))):
            d = scratch()
            try:
                r = subprocess.run(["patch", "-p1", "-s", "-d", d, "-i", patch], capture_output=True, text=True)
                if r.returncode != 0:
                    print(f"{os.path.basename(patch)}: PATCH-FAILED {r.stdout}{r.stderr}"); rc_all = 2; continue
                rcs = []
                for sd in seeds:
                    rc, out = run(prop, d, tier, extra + ["--seed", sd])
                    rcs.append(rc)
                    if rc == 2: print(out[-1500:])
                keys = [l.strip()[:160] for l in out.splitlines() if l.strip().startswith("violation in")]
                verdict = "CAUGHT" if all(r == 1 for r in rcs) else "MISSED" if all(r == 0 for r in rcs) else "ERROR" if 2 in rcs else "FLAKY"
                print(f"{os.path.basename(patch)}: exit={rcs} {verdict} {keys[:1]}", flush=True)
                if verdict != "CAUGHT":
                    rc_all = 1
            finally:
                shutil.rmtree(d, ignore_errors=True)
        return rc_all
    name, rel, old, new = a[1], a[2], a[3], a[4]
    d = scratch()
    try:
        path = os.path.join(d, "dissect", "cobaltstrike", rel)
        s = open(path).read()
        if s.count(old) < 1:
            print("OLD text not found"); return 2
        open(path + ".orig", "w").write(s)
        open(path, "w").write(s.replace(old, new, 1))
        diff = subprocess.run(["diff", "-u", "--label", f"a/dissect/cobaltstrike/{rel}", "--label", f"b/dissect/cobaltstrike/{rel}", path + ".orig", path], capture_output=True, text=True).stdout
        os.unlink(path + ".orig")
        rc, out = run(prop, d, tier, extra)
        print(out[-3000:])
        print(f"==> mutant {name}: exit={rc} ({'CAUGHT' if rc == 1 else 'MISSED' if rc == 0 else 'ERROR'})")
        if save:
            os.makedirs(os.path.join(ROOT, "mutants", prop), exist_ok=True)
            open(os.path.join(ROOT, "mutants", prop, name + ".patch"), "w").write(diff)
        return 0
    finally:
        shutil.rmtree(d, ignore_errors=True)


if __name__ == "__main__":
    sys.exit(main())
