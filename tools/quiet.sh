#!/bin/sh
# Quietness sweep: every check at several seeds on the unchanged tree must exit 0 and print no VIOLATION line.
cd "$(dirname "$0")/.."
seeds="${SEEDS:-0 1 2 7 12345}"
props="${PROPS:-C01 C02 C03 C04 C05 C06 C07 C08 C09 C10 C11 C12 C13 C14 C15 C16 C17 C18 C19 C20}"
bad=0
for s in $seeds; do
  for p in $props; do
    out=$(VERIF_SEED=$s ./check $p --tier quick 2>&1); rc=$?
    line=$(echo "$out" | grep "^\[$p\]" | head -1)
    if [ $rc -ne 0 ] || echo "$out" | grep -q "^VIOLATION"; then bad=1; echo "ALARM seed=$s $p rc=$rc"; echo "$out" | grep -v "^    " | head -12; else echo "ok seed=$s $line"; fi
  done
done
exit $bad
