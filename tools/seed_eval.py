#!/venv/bin/python
"""Confirm a seeded change produced by a sub-agent and run our check against it.

  tools/seed_eval.py C15 /tmp/wt_C15 [--name short_name] [--no-tests] [--tier quick]

1. copies <wt>/seeded/{patch.diff,demo.py,meta.json} to /verif/seeded/<ID>_<name>/
2. confirms in the agent's worktree: demo fails with the change, passes without, test-suite passes with the change
3. applies the patch to /repo, runs ./check <ID>, and ALWAYS restores /repo (git checkout -- .)
4. records everything in meta.json
"""
import json, os, shutil, subprocess, sys, time

ROOT = os.path.dirname(os.path.dirname(os.path.abspath(__file__)))


def sh(cmd, **kw):
    return subprocess.run(cmd, shell=True, capture_output=True, text=True, **kw)


def main():
    a = sys.argv[1:]
    pid, wt = a[0], a[1]
    name = a[a.index("--name") + 1] if "--name" in a else "1"
    tier = a[a.index("--tier") + 1] if "--tier" in a else "quick"
    props = a[a.index("--props") + 1].split(",") if "--props" in a else [pid]
    dest = os.path.join(ROOT, "seeded", f"{pid}_{name}")
    os.makedirs(dest, exist_ok=True)
    for f in ("patch.diff", "demo.py", "meta.json"):
        shutil.copy(os.path.join(wt, "seeded", f), os.path.join(dest, f))
    meta = json.load(open(os.path.join(dest, "meta.json")))
    env = f"PYTHONPATH={wt} PYTHONHASHSEED=0"
    res = {}
    # (a) with the change
    st = sh(f"git -C {wt} diff --stat -- dissect | tail -1").stdout.strip()
    if not st:
        r = sh(f"git -C {wt} apply seeded/patch.diff")
        assert r.returncode == 0, r.stderr
    r = sh(f"cd {wt}/seeded && {env} /venv/bin/python demo.py")
    res["demo_with_change"] = dict(exit=r.returncode, tail=(r.stdout + r.stderr)[-300:])
    # (b) without
    r0 = sh(f"git -C {wt} apply -R seeded/patch.diff")
    assert r0.returncode == 0, r0.stderr
    r = sh(f"cd {wt}/seeded && {env} /venv/bin/python demo.py")
    res["demo_without_change"] = dict(exit=r.returncode, tail=(r.stdout + r.stderr)[-300:])
    r0 = sh(f"git -C {wt} apply seeded/patch.diff")
    assert r0.returncode == 0, r0.stderr
    # (c) tests with the change
    if "--no-tests" not in a:
        r = sh(f"cd {wt} && {env} /venv/bin/python -m pytest -q -p no:cacheprovider --timeout=900 tests 2>&1 | tail -3")
        res["tests_with_change"] = r.stdout.strip()[-300:]
    # our checks against /repo with the patch applied (or, with --via-worktree, against the agent's patched worktree
    # through VERIF_REPO - used while a background run is reading /repo)
    via_wt = "--via-worktree" in a
    checks = {}
    if via_wt:
        for p in props:
            t0 = time.time()
            r = sh(f"cd {ROOT} && VERIF_NO_EVIDENCE=1 VERIF_REPO={wt} ./check {p} --tier {tier}")
            lines = [l for l in r.stdout.splitlines() if l.startswith("VIOLATION") or l.strip().startswith("violation in")]
            checks[p] = dict(exit=r.returncode, wall=round(time.time() - t0, 1), lines=[l[:400] for l in lines[:4]], via="VERIF_REPO=worktree")
    else:
        assert sh("git -C /repo status --porcelain -- dissect").stdout.strip() == "", "/repo has uncommitted changes"
        r0 = sh(f"git -C /repo apply {dest}/patch.diff")
        assert r0.returncode == 0, r0.stderr
        try:
            for p in props:
                t0 = time.time()
                r = sh(f"cd {ROOT} && VERIF_NO_EVIDENCE=1 ./check {p} --tier {tier}")
                lines = [l for l in r.stdout.splitlines() if l.startswith("VIOLATION") or l.strip().startswith("violation in")]
                checks[p] = dict(exit=r.returncode, wall=round(time.time() - t0, 1), lines=[l[:400] for l in lines[:4]])
        finally:
            sh("git -C /repo checkout -- .")
        assert sh("git -C /repo status --porcelain -- dissect").stdout.strip() == ""
    meta["confirmed_by_verif"] = res
    meta["our_checks"] = checks
    meta["breaks_property"] = pid
    json.dump(meta, open(os.path.join(dest, "meta.json"), "w"), indent=1)
    ok = res["demo_with_change"]["exit"] == 1 and res["demo_without_change"]["exit"] == 0
    print(f"{pid}_{name}: demo with={res['demo_with_change']['exit']} without={res['demo_without_change']['exit']} tests={res.get('tests_with_change','skipped')[-40:]!r} confirmed={ok}")
    for p, c in checks.items():
        print(f"   check {p}: exit={c['exit']} ({'CAUGHT' if c['exit'] == 1 else 'MISSED' if c['exit'] == 0 else 'ERROR'}) {c['wall']}s {c['lines'][:1]}")


main()
