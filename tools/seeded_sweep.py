#!/venv/bin/python
"""Re-run every kept seeded change (seeded/<ID>_<name>/patch.diff) against its property's quick check.

  tools/seeded_sweep.py [--seeds 1,2,3] [--only C04,C05] [--names C04_x,C05_y]

Each patch is applied to a scratch copy of /repo in /dev/shm (never to /repo). CAUGHT = exit 1 at every seed,
FLAKY = caught at some seeds only, MISSED = never caught."""
import glob, json, os, shutil, subprocess, sys

sys.path.insert(0, os.path.dirname(os.path.abspath(__file__)))
import mut  # noqa: E402

ROOT = mut.ROOT


def main():
    a = sys.argv[1:]
    seeds = a[a.index("--seeds") + 1].split(",") if "--seeds" in a else ["1"]
    only = a[a.index("--only") + 1].split(",") if "--only" in a else None
    names = a[a.index("--names") + 1].split(",") if "--names" in a else None  # full directory names
    bad = 0
    for d in sorted(glob.glob(os.path.join(ROOT, "seeded", "C*_*"))):
        name = os.path.basename(d)
        prop = name.split("_")[0]
        if only and prop not in only:
            continue
        if names and name not in names:
            continue
        patch = os.path.join(d, "patch.diff")
        try:
            disp = json.load(open(os.path.join(d, "meta.json"))).get("disposition")
        except Exception:
            disp = None
        if disp == "out_of_domain":
            print(f"{name}: OUT-OF-DOMAIN (kept for the record, see meta.json)", flush=True)
            continue
        s = mut.scratch()
        try:
            r = subprocess.run(["patch", "-p1", "-s", "-d", s, "-i", patch], capture_output=True, text=True)
            if r.returncode != 0:
                print(f"{name}: PATCH-FAILED {r.stdout[:200]}", flush=True)
                bad = 1
                continue
            rcs = []
            for sd in seeds:
                rc, out = mut.run(prop, s, "quick", ["--seed", sd])
                rcs.append(rc)
            verdict = "CAUGHT" if all(r == 1 for r in rcs) else "MISSED" if all(r == 0 for r in rcs) else "ERROR" if 2 in rcs else "FLAKY"
            keys = [l.strip()[:140] for l in out.splitlines() if l.strip().startswith("violation in")]
            print(f"{name}: exit={rcs} {verdict} {keys[:1]}", flush=True)
            if verdict != "CAUGHT":
                bad = 1
        finally:
            shutil.rmtree(s, ignore_errors=True)
    print("ALL SEEDED CHANGES CAUGHT" if not bad else "SOME SEEDED CHANGES NOT CAUGHT AT EVERY SEED")
    return bad


if __name__ == "__main__":
    sys.exit(main())
