#!/bin/sh
# Sensitivity sweep: every committed mutant must turn its property's quick check red (exit 1).
cd "$(dirname "$0")/.."
bad=0
for d in mutants/*/; do
  p=$(basename "$d")
  out=$(tools/mut.py "$p" --all 2>&1)
  echo "$out" | cut -c1-160
  echo "$out" | grep -q "MISSED\|ERROR\|PATCH-FAILED" && bad=1
done
[ $bad -eq 0 ] && echo "ALL MUTANTS CAUGHT" || echo "SOME MUTANTS NOT CAUGHT"
exit $bad
