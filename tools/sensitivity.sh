#!/bin/sh
# Sensitivity sweep: every committed mutant must turn its property's quick check red (exit 1).
#   tools/sensitivity.sh            one seed (VERIF_SEED default 1)
#   tools/sensitivity.sh 2,3,5      every mutant at each of these seeds - FLAKY = caught at some seeds only (luck)
cd "$(dirname "$0")/.."
bad=0
for d in mutants/*/; do
  p=$(basename "$d")
  out=$(tools/mut.py "$p" --all ${1:+--seeds $1} 2>&1)
  echo "$out" | cut -c1-160
  echo "$out" | grep -q "MISSED\|ERROR\|PATCH-FAILED\|FLAKY" && bad=1
done
[ $bad -eq 0 ] && echo "ALL MUTANTS CAUGHT" || echo "SOME MUTANTS NOT CAUGHT"
exit $bad
