#!/bin/sh
# Offline setup: make sure hypothesis is importable in /venv and atheris in /verif/.deps (both from the local wheelhouse).
cd "$(dirname "$0")/.." || exit 1
PY=/venv/bin/python
$PY -c "import hypothesis" 2>/dev/null || /venv/bin/pip install -q --no-index --find-links /opt/veriftools/wheels hypothesis
mkdir -p .deps
PYTHONPATH=.deps $PY -c "import atheris" 2>/dev/null || /venv/bin/pip install -q --no-index --find-links /opt/veriftools/wheels --target .deps atheris 2>/dev/null || echo "atheris not installable; fuzz sub-checks will report themselves as skipped"
$PY -c "import hypothesis, dissect.cobaltstrike; print('setup ok: hypothesis', hypothesis.__version__)"
