#!/usr/bin/env python3-vt
import json, sys, glob, jsonschema
schema = json.load(open("/root/.vp/EVIDENCE.schema.json"))
bad = 0
for f in sorted(glob.glob("evidence/*.json")):
    try:
        jsonschema.validate(json.load(open(f)), schema); print(f, "ok")
    except Exception as e:
        bad += 1; print(f, "INVALID", str(e)[:300])
sys.exit(1 if bad else 0)
